# Per-property check configuration consumed by bin/check.
P = 'github.com/EscanBE/evermint/v12/'

COMMON_ASSUMPTIONS = [
    'Trusted base: the gosym interpreter (SSA semantics, Int encoding with explicit mod-2^k wrap), the SMT solvers, and the environment models in /verif/harness/model (DESIGN.md section 3).',
    'Store model: finite closed-world key/value lists; CacheMultiStore = functional copy, Write = replace parent content.',
    'Codec model: inverse-pair stub (Marshal returns an opaque handle of a deep copy, Unmarshal returns it); native replay uses the real protobuf codec.',
    'Logging, telemetry and error-message formatting are no-ops / opaque strings.',
]

NOT_APPLICABLE = {
    'C19': "substance lives inside Keccak-256, secp256k1, HMAC-SHA512/PBKDF2 and reflection-driven amino/protobuf/EIP-712 rendering: beyond bounded SMT reach (hash/curve arithmetic), and with those stubbed as uninterpreted functions binding/injectivity would hold by assumption (DESIGN.md section 6)",
}

SDB_ASSUMPTIONS = COMMON_ASSUMPTIONS + [
    'Account keeper model: authkeeper.AccountKeeper methods replaced by model.AK* (accounts as real SDK account objects in the model store); native replay uses the real auth keeper.',
    'Bank model: model.BK mirrors cosmos-sdk v0.50.10 x/bank send/mint/burn control flow incl. locked coins and events; native replay uses the real bank keeper.',
    'Address/number renderings (bech32, hex, decimal) are injective uninterpreted renderings with exact inverses.',
    'Package-level state of all packages is initialised once per engine worker and kept across paths.',
]

H = P + 'zzverif/hsdb.'
T = P + 'zzverif/htx.'
A = P + 'zzverif/hante.'
C = P + 'zzverif/hcpc.'

SDB_BOUNDS = ['StateDB harnesses: 2 accounts (20 symbolic address bytes each, distinct) unless stated, account kinds as listed per harness', 'amounts and balances in [0, 2^128), supply = sum of harness balances + symbolic rest in [0, 2^130)',
              'storage: slots {1,2} with symbolic one-byte values; code: two fixed byte strings', 'nonces < 2^62']

TX_ASSUMPTIONS = SDB_ASSUMPTIONS + [
    'EVM interpreter model: the fork\'s real EVM.Call/Create/StaticCall run; only (*EVMInterpreter).Run is replaced (hook overlay on core/vm/interpreter.go, same in engine and native replay) by a symbolic script acting through vm.StateDB; it never returns more gas than it was given.',
    'Ethereum transaction model: RLP decoding returns the registered transaction object, signature recovery returns the registered signer, tx.Hash the registered hash; native replay signs a real transaction.',
    'Receipt RLP keeps exactly the consensus fields; the bloom filter is recomputed with Keccak over concrete log addresses/topics.',
    'runTx model: ante decorators run on a branch written iff all succeed; the message runs on a second branch written iff no error and no panic.',
]

TX_BOUNDS = ['one Ethereum transaction: legacy or dynamic-fee; destination scripted contract / plain account / creation (per harness); gas limit any uint64; value < 2^128; data 2 bytes',
             'quick tier prices: gas price in {0, 3, 10^10}, (tip, cap) in {(0,0),(2,9),(2,6),(0,7)}, base fee in {0,5,7}; thorough tier adds tip, cap, gas price < 2^100 and base fee < 2^64 fully symbolic',
             'sender balance < 2^200, other balances in [1, 2^128), sender sequence < 2^63',
             'contract behaviour: script of 1 action in {none, log, sstore with symbolic refund counter < 2^62, transfer out, self-destruct}, symbolic gas use (any uint64, capped at the gas available), outcome {success, revert, error}']

CHECKS = {
    'C01': {
        'pkgs': ['./zzverif/hsdb', './zzverif/hcpc', './zzverif/htx'],
        'harnesses': [
            {'fn': H + 'H_C01_1_CommitOrder', 'over': {'max-decisions': 3000, 'max-paths': 60000}, 'must_reach': ['two-destroyed-accounts-with-balances']},
            {'fn': H + 'H_C01_2_Clock', 'must_reach': ['vesting-destroy-refused']},
            {'fn': C + 'H_C01_3_StakingTransferChoice', 'native': False, 'over': {'max-decisions': 2000}, 'must_reach': ['chosen']},
            {'fn': C + 'H_C01_4_NodeLocalReads'},
            {'fn': H + 'H_C01_6_ProcessLifetime', 'must_reach': ['compared']},
            {'fn': T + 'H_C01_5_TracerSettingIndependence', 'over': {'max-decisions': 2000, 'max-paths': 100000}, 'must_reach': ['compared']},
        ],
        'level_text': 'Self-composition under environment non-determinism, decided by bounded symbolic execution of the real StateDB commit/destroy code: the same history is executed twice with independently chosen Go-map iteration orders (every permutation explored) and independent symbolic wall-clock values, and z3 decides equality of all stores and of the emitted event sequence for every symbolic balance/kind/end time in the bounds.',
        'level_note': 'Only the determinism sources that /repo code itself introduces in the StateDB commit path (map iteration at commit, wall clock in the destroy guard) are decided; SDK modules, CometBFT, IAVL hashing and goroutine scheduling are outside. Trusted: gosym, solvers, store/account/bank models.',
        'bounds': ['H_C01_1: 2-3 touched accounts at fixed distinct addresses, each {empty base account | base account with symbolic positive balances in 2 denominations | coins without auth account}, each {touched | self-destructed}; every permutation of every map ranged over during CommitMultiStore, chosen independently in the two executions',
                   'H_C01_3: staking precompile transfer() with 2-3 bonded validators with symbolic token amounts (ties allowed), caller with / without delegations, the keeper returning lists in two orders, all map permutations (engine-level: SDK staking keeper stubbed)', 'H_C01_4: a precompile deployed on the block branch, with / without an interleaved read of the committed state, exposure in the block\'s EVM compared', 'H_C01_6: x/evm BeginBlock + EndBlock of a block at a symbolic height in [2, 2^62) by a node running since the previous block and by one restarted in between (keepers rebuilt over the same stores): same contents and the same sequence of store writes (re-writes of unchanged values included: IAVL turns them into new node versions)', 'H_C01_5: one message (call / plain transfer / creation, quick-tier price sets, symbolic gas, value, balances, scripted contract with storage write or log) executed by a keeper without tracer and by one with the node-local tracer setting access_list or struct (json / markdown loggers print through reflection-based encoders and are not run)', 'H_C01_2: 1 account of 8 kinds (none, base, module, continuous/delayed/periodic/permanent-locked vesting, bare base vesting), symbolic end time and block time in [0, 2^40), 4 destroy routes, time.Now() fresh symbolic value per call in [1970, 2200]'] ,
        'outside': ['determinism of SDK modules (bank, staking, distribution), CometBFT, IAVL', 'goroutine scheduling, node-local configuration', 'NewEVM block context fields, per-block bookkeeping across processes', 'more than 3 accounts destroyed in one transaction'],
        'assumptions': SDB_ASSUMPTIONS,
    },
    'C02': {
        'pkgs': ['./zzverif/hsdb', './x/evm/vm', './zzverif/hcpc', './zzverif/htx'],
        'harnesses': [
            {'fn': H + 'H_C02_2_StateDBRefinement', 'must_reach': ['suicide-after-refund']},
            {'fn': C + 'H_C02_4_WarmSet'},
            {'fn': T + 'H_C02_5_TransitionDifferential', 'over': {'max-decisions': 1500, 'max-paths': 100000}, 'must_reach': ['executed-by-both', 'vm-error-in-both', 'refused-by-both']},
            {'fn': T + 'H_C02_5b_TransitionDifferentialAll', 'over': {'max-decisions': 1500, 'max-paths': 300000}, 'thorough_only': True, 'must_reach': ['executed-by-both', 'vm-error-in-both', 'refused-by-both']},
            {'fn': P + 'x/evm/vm.H_C02_3_AccessListDifferential', 'over': {'max-paths': 200000}},
            {'fn': P + 'x/evm/vm.H_C02_3b_AccessListDifferential4', 'over': {'max-paths': 600000}, 'thorough_only': True},
        ],
        'level_text': 'Differential bounded symbolic execution of the glue evermint wrote around go-ethereum: (a) the real context-based StateDB against a reference model of go-ethereum\'s state-object semantics (AddBalance, SubBalance, Suicide - which zeroes the balance every time -, SetNonce, SetState, SetCode, CreateAccount with balance carry-over) over all sequences of 3 operations on one account with symbolic amounts: every vm.StateDB getter agrees after every step; (b) evermint\'s AccessList2 against go-ethereum\'s own accessList code (kept verbatim in the repository) over all sequences of 3 (thorough: 4) operations incl. copy-then-continue with a stray write to the original, 2 symbolic addresses and slots with aliasing: all return values and membership queries agree; (c) after the real TransitionDb the warm address set contains sender, destination, standard and custom precompiles and neither an unrelated account nor the zero address; (d) evermint\'s copy of the state transition (keeper.ApplyMessage -> StateTransition.TransitionDb, gas pre-paid by the ante handler) against the fork\'s own unmodified core.ApplyMessage, both driving the real EVM.Call / Create over the real StateDB with the same scripted contract behaviour from ledgers that differ exactly by the pre-payment: same consensus error class, used gas, VM error, return data, gas pool, nonces, balances, storage, logs, self-destruct marks and refund counter.',
        'level_note': 'Partial claim: the EVM bytecode interpreter (opcode semantics, gas tables, 63/64 rule), the standard precompiles and tracing are outside; the state transition glue (intrinsic gas, refund cap, nonce handling, value check) is decided against go-ethereum\'s own core.StateTransition code in (d) and against independent oracles under C05/C06/C13; the coinbase tip (paid by go-ethereum\'s transition, by the ante handler in evermint) is left out of (d). The reference model of (a) is a hand-written transcription of go-ethereum v1.10.26 state_object.go / statedb.go.',
        'bounds': ['(a) 1 account (none / base, symbolic balance and nonce), 3 operations of 7 kinds, amounts < 2^100', '(b) 2 addresses x 2 slots, 3 operations (thorough 4) of 3 kinds', '(d) one message: call of the scripted contract / creation (thorough: plain transfer, nonce too low / too high), legacy or dynamic fee with the quick-tier price sets, symbolic gas limit, block gas pool, value, balances; contract: 1 action of 2 kinds (thorough 4) with symbolic refund, symbolic gas use, 3 outcomes; sender balance covers gas*feeCap + value (go-ethereum\'s purchase precondition, the ante handler\'s job)'],
        'outside': ['all contract bytecode (the quantifier of the property): the interpreter is not executed', 'precompiles 0x01-0x09, tracers'],
        'assumptions': SDB_ASSUMPTIONS,
    },
    'C03': {
        'pkgs': ['./zzverif/hsdb'],
        'harnesses': [
            {'fn': H + 'H_C03_1_Erase', 'over': {'max-paths': 60000}},
            {'fn': H + 'H_C03_1a_EraseJournalPQ', 'over': {'max-paths': 60000}},
            {'fn': H + 'H_C03_3_Keep', 'over': {'max-paths': 60000}},
            {'fn': H + 'H_C03_1b_ErasePQ', 'over': {'max-paths': 400000, 'max-decisions': 1500}, 'thorough_only': True},
            {'fn': H + 'H_C03_1c_EraseQQ', 'over': {'max-paths': 400000, 'max-decisions': 1500}, 'thorough_only': True},
            {'fn': H + 'H_C03_2_Nesting', 'over': {'max-paths': 400000, 'max-decisions': 1500}, 'thorough_only': True},
        ],
        'level_text': 'Metamorphic self-composition on the real context-based StateDB (vm.NewStateDB over the real sdk.Context branching): "P; snapshot; Q; revert" is compared with "P" in two identical symbolic worlds, for 14 operation kinds incl. a keeper write through the current context (what a stateful precompile does); z3 decides equality of every StateDB getter, of all stores after commit and of the event sequence on every path.',
        'level_note': 'The EVM interpreter and real call frames are not executed: frames are modelled as Snapshot/RevertToSnapshot brackets around StateDB operations, which is exactly the interface the interpreter uses. Staking/distribution effects are represented by a bank write through GetCurrentContext() (the revert mechanism, context branching, is the real one).',
        'bounds': SDB_BOUNDS + ['quick: |P|=0,|Q|=1 over all 14 kinds with rich account a (code/storage optional); |P|=1,|Q|=1 over the 7 journal kinds; keep (no revert) with 1-2 extra snapshots',
                                'thorough: |P|=1,|Q|=1 and |Q|=2 with one operation over all 14 kinds and the other over 10 representative kinds (one per mechanism; all 14 x 14 pairs are 105,000 paths per harness and were not run clean), plain accounts; two-level nesting incl. stale snapshot id'],
        'outside': ['contract call trees executed by the EVM interpreter', 'effects inside SDK staking/distribution keepers', 'more than 2 operations per frame, more than 2 nesting levels'],
        'assumptions': SDB_ASSUMPTIONS,
    },
    'C11': {
        'pkgs': ['./zzverif/hcpc'],
        'harnesses': [
            {'fn': C + 'H_C11_1_CallerOnly', 'native': False, 'must_reach': ['succeeded', 'failed']},
            {'fn': C + 'H_C11_2_SignedMessage', 'native': False, 'must_reach': ['accepted', 'refused']},
            {'fn': C + 'H_C11_3_WithdrawRewards', 'native': False, 'over': {'max-decisions': 2000}, 'must_reach': ['withdrew-from-both', 'nothing-to-withdraw']},
            {'fn': C + 'H_C11_4_Views', 'native': False, 'over': {'max-decisions': 2000}, 'must_reach': ['view-answered']},
        ],
        'level_text': 'Bounded exhaustive symbolic execution of the staking precompile\'s real executors (delegate, undelegate, redelegate, withdrawReward, delegateByActionMessage, withdrawRewardsByMessage, autoEmitEventsFromSdkEvents) through the fork\'s real EVM.Call -> RunCustom -> the repo\'s wrapper, with the SDK staking / distribution message servers replaced by recording stubs that emit the SDK\'s events (incl. the reward payout the distribution hook makes when an existing delegation is modified): exactly one native message per successful call, delegator = immediate caller, validators / amount / denomination = decoded arguments; logs match the module events one-to-one; the signed variants submit a message only if message.delegator = caller and the EIP-712 signature (uninterpreted) recovers to that delegator for the EVM\'s own chain id.',
        'level_note': 'Partial claim. "Effect identical to the native message" below the message-server boundary holds by construction (the precompile calls the native servers) and is not re-proved; withdrawRewards() (one native withdrawal per validator at or above the minimum, for the caller) and the five view methods (numbers of the native queries, asked for the argument address, truncation of decimals) are decided against stub queries with symbolic figures; transfer() is only covered for determinism of its validator choice (C01). No native replay: the SDK staking and distribution keepers are concrete structs that only exist in a full application; a counterexample is reported at engine level.',
        'bounds': ['2 callers, 2 validators, amount < 2^200, with / without pending rewards, native server accepts / rejects', 'signed variants: delegator in 2 accounts, signature recovers to one of 3 accounts or is invalid, 2 actions + withdraw', 'withdrawRewards: 0-2 reward entries with symbolic integer part < 2^100, fractional part, optional second denomination', 'views: 2 argument addresses, 2 validators, shares < 2^120 * 10^-18 at exchange rate 3, bonded < 2^128, rewards as above, CALL / STATICCALL'],
        'outside': ['SDK staking / distribution internals (reward accrual, unbonding queues, slashing)', 'EIP-712 typed-data hashing and secp256k1 (uninterpreted)', 'transfer() effects, balanceOf', 'contract callers via DELEGATECALL (the executor sees caller.Address() as passed by the fork)'],
        'assumptions': TX_ASSUMPTIONS + ['staking / distribution message servers: recording stubs emitting the events of cosmos-sdk v0.50.10 (delegate, unbond, redelegate, withdraw_rewards with the attribute sets the precompile filters on)', 'sdk.ParseCoinsNormalized is the inverse of Coin.String for one coin; encoding/json of the typed messages is an inverse pair'],
    },
    'C12': {
        'pkgs': ['./zzverif/hcpc'],
        'harnesses': [
            {'fn': C + 'H_C12_1_StaticContext', 'over': {'max-paths': 200000}, 'must_reach': ['staticcall-rejected', 'write-succeeds-outside-static-context']},
            {'fn': C + 'H_C12_2_ReadOnlyMethods'},
            {'fn': C + 'H_C12_3_MethodTable'},
        ],
        'level_text': 'Bounded symbolic execution of the fork\'s real EVM.Call / StaticCall / DelegateCall / CallCode -> RunPrecompiledContract -> RunCustom -> the repo\'s method wrapper and ERC-20 executors (precompiles wired by the real NewEVM), with the interpreter\'s static flag as a symbolic input (set through an overlay hook, as an enclosing STATICCALL frame sets it): z3 decides for every state-changing method, call kind and symbolic arguments that a read-only context leaves bank balances, supply, allowances and logs unchanged; read-only methods never write; concrete enumeration of the real registry shows every state-changing method of all three contract types charges gas and selectors are unique.',
        'level_note': 'Known finding C12-F7 (open, in the go-ethereum fork): the static flag of an ancestor frame is not honoured for custom precompiles reached by CALL/DELEGATECALL/CALLCODE. Staking write methods are covered only by the method-table enumeration (their bodies need the SDK staking keeper).',
        'bounds': ['5 state-changing ERC-20 methods x 4 call kinds x static-ancestor flag, caller in 3 accounts, address argument in {3 accounts, zero, cpc module}, amount < 2^256, balances in [1, 2^128)', 'call depth 1 below the flag (deeper nesting rests on go-ethereum\'s invariant that the flag stays set for child frames)'],
        'outside': ['opcode-level write protection for ordinary contracts (upstream go-ethereum)', 'staking precompile bodies'],
        'assumptions': TX_ASSUMPTIONS + ['go-ethereum opCall: under a static ancestor a CALL carries value 0 (instructions.go; not executed)'],
    },
    'C13': {
        'pkgs': ['./zzverif/htx'],
        'harnesses': [
            {'fn': T + 'H_C13_1_Block2', 'over': {'max-decisions': 3000, 'max-paths': 100000}, 'must_reach': ['second-tx-has-logs-after-logs']},
            {'fn': T + 'H_C13_1c_Sandwich', 'over': {'max-decisions': 5000, 'max-paths': 100000}},
            {'fn': T + 'H_C13_1b_Block3', 'over': {'max-decisions': 5000, 'max-paths': 400000}, 'thorough_only': True},
        ],
        'level_text': 'Bounded symbolic execution of a block of 2 (thorough: 3) Ethereum transactions of 8 outcome classes each (call with 0-2 logs, revert, VM error, failure outside EVM execution, creation ok / failed / self-destructing constructor, plain transfer) through the real EVM lane (ante bookkeeping, message server, ApplyMessageWithConfig receipt/bloom/transient code) and the real x/evm EndBlock; every gas-used figure is symbolic. z3 decides: transaction indices 0,1,2 in order, first-log index = logs emitted before, cumulative gas = running sum (gas limit for discarded executions), status 1 iff no VM error, created address reported iff creation succeeded and equal to CreateAddress(sender, nonce), receipt bloom = bloom of its own logs, one receipt per admitted transaction, EndBlock never panics.',
        'level_note': 'Bloom bit arithmetic is recomputed by a model using Keccak over concrete addresses/topics (native replay uses go-ethereum\'s); Cosmos transactions interleaved in the block are not modelled (they do not touch the x/evm transient store).',
        'bounds': ['2 transactions of 8 classes each, and 3 transactions with log-emitting first and last and any class in between (quick); 3 transactions of 8 classes each (thorough); symbolic gas consumed by the contract; concrete prices/balances'],
        'outside': ['RLP bytes of receipts', 'more than 2 logs per transaction, more than 3 transactions'],
        'assumptions': TX_ASSUMPTIONS,
    },
    'C17': {
        'pkgs': ['./zzverif/hcpc'],
        'harnesses': [
            {'fn': C + 'H_C17_1_RegistryStep', 'must_reach': ['succeeded', 'failed']},
            {'fn': C + 'H_C17_3_Exposure', 'must_reach': ['enabled', 'disabled']},
        ],
        'level_text': 'Inductive step by bounded symbolic execution of the real x/cpc message server (DeployErc20Contract, DeployStakingContract, UpdateParams) from registry states built by the real keeper API (optional existing ERC-20 and staking contracts, symbolic whitelist, optionally after an UpdateParams executed on a discarded state branch): the registry invariant (unique addresses, denomination index <-> metadata, one ERC-20 per denomination) is preserved, deployments need a whitelisted sender / positive supply / unused denomination and get a fresh address, failures change nothing, the protocol version never decreases; and of the real Keeper.NewEVM wiring: a registered enabled contract answers, a disabled one cannot be executed, an unregistered address is not a precompile, for top-level messages with 0/2/5 bytes of data, calls and creations.',
        'level_note': 'Exposure is checked for the NewEVM construction used by deliver, check (993e), simulate and query paths alike (they all call Keeper.NewEVM); the whitelist oracle is what the harness wrote to the committed state, not what the keeper reports.',
        'bounds': ['<= 2 existing contracts, whitelist in {none, 1, 2 addresses}, 4 senders, 3 denominations (one without supply), protocol version in {0,1,2}', '1 message'],
        'outside': ['governance voting', 'go-ethereum\'s standard precompiles', 'genesis flag combinations (C18 harnesses)'],
        'assumptions': TX_ASSUMPTIONS,
    },
    'C14': {
        'pkgs': ['./zzverif/hidx', './rpc/backend', './server'],
        'harnesses': [
            {'fn': P + 'zzverif/hidx.H_C14_1_IndexKernel', 'must_reach': ['some-eth-tx-indexed']},
            {'fn': P + 'server.H_C14_3_ServiceRestart', 'timing': True, 'over': {'max-decisions': 6000, 'max-paths': 100000}, 'must_reach': ['compared', 'restart-with-non-empty-index']},
            {'fn': P + 'rpc/backend.H_C14_2_ReceiptView', 'over': {'max-paths': 100000}, 'must_reach': ['views-compared', 'synthetic-receipt-of-discarded-tx', 'synthetic-receipt-after-earlier-eth-tx-and-non-eth-tx']},
        ],
        'level_text': 'Bounded exhaustive symbolic execution of the real indexer kernel (KVIndexer.IndexBlock, GetByTxHash, GetByBlockAndIndex, LastIndexedBlock, TxHashKey/TxIndexKey, rpctypes.ParseTxResult, TxWasDroppedPreAnteHandleDueToBlockGasExcess, IsEthereumTx) over a block of 1-3 transactions of 6 kinds with the events the application emits, optionally followed by a later block: every Ethereum transaction that reached the ante handler is found by hash and by (height, index), both lookups agree, indices follow block order over exactly those transactions, block position and failed flag are right, nothing else is indexed, unknown hash / out-of-range index are errors, re-indexing a block (also after a later one) leaves the database byte-for-byte unchanged.',
        'level_note': 'H_C14_2 runs the real rpc/backend code (GetTransactionReceipt, GetTransactionByHash, GetTransactionByBlockNumberAndIndex, GetBlockTransactionCountByNumber, GetLogsByHeight / GetLogsFromBlockResults / AllTxLogsFromEvents, TxReceiptFromEvent/ParseTxReceiptFromEvent, EthMsgsFromCometBFTBlock, NewRPCReceiptFromReceipt, NewRPCTransaction) over the real indexer with a stub CometBFT client serving the symbolic block and its results (tx_receipt events built by the real GetSdkEventForReceipt) and compares every reported field with the consensus figures (symbolic gas limits / gas used; cumulative gas = running sum over Ethereum txs that reached the ante handler). H_C14_3 runs the real EVMIndexerService (Start -> OnStart with its header goroutine and catch-up loop, under the engine\'s scheduler with delay bound 0: the deterministic round-robin schedule; time.Sleep polling wakes on synchronisation changes, time-outs never fire) over the real KVIndexer against a stub chain: a service killed after indexing k of 3 blocks and restarted on the same database when the chain is 3 blocks further is compared with an uninterrupted one. Known finding C14-F16 (open): with an empty index at restart the blocks produced meanwhile are skipped. Block and log-filter views (blocks.go, filters.go) and the indexer service with its goroutines, timers and crash/restart schedules are outside the engine (no concurrency, no I/O); convergence after a crash rests on the two facts shown here: a block is written in one atomic batch and indexing is idempotent.',
        'bounds': ['1-3 transactions per block, 6 kinds each; 2 blocks', 'H_C14_3: 3 blocks of 1 transaction of 6 kinds each, crash after 0-2 blocks, restart at chain height +3', 'H_C14_2: 1 block of 1-3 transactions of 6 kinds, gas limit in [21000, 2^32), gas used in [21000, gas limit], 0-2 logs per successful tx, legacy txs', 'database: finite ordered map with atomic batch (native replay: cosmos-db MemDB)'],
        'outside': ['rpc/backend block / header views (RPCBlockFromCometBFTBlock), log filtering by criteria, block hash derivation from the CometBFT header', 'indexer service: other schedules than the round-robin one, RPC failures of the node (failure tracker), pruned nodes', 'real protobuf transaction decoding (registry of decoded transactions)'],
        'assumptions': COMMON_ASSUMPTIONS + ['TxDecoder returns the registered sdk.Tx for registered bytes and an error otherwise; tx.Hash() returns the registered hash (native replay: really signed transactions)'],
    },
    'C15': {
        'pkgs': ['./zzverif/hsdb'],
        'harnesses': [
            {'fn': H + 'H_C15_1_DestroyGuard', 'must_reach': ['removed-account-holding-both-denoms', 'removed-expired-vesting-account']},
        ],
        'level_text': 'Bounded symbolic execution of the real DestroyAccount / CreateAccount / Suicide / CommitMultiStore / IsEmptyAccount code on one account of every kind with symbolic vesting end time, block time, nonce, balances in two denominations, code and storage: z3 decides on every path that an auth record disappears or is replaced only when the guard allows it, and that a removed account is removed completely and burns exactly what it held.',
        'level_note': 'Oracle follows GetEndTime(): a PermanentLockedAccount reports end time 0 and is therefore not protected by the guard (noted in DESIGN.md, not asserted). Locked-coin arithmetic of linear vesting (LegacyDec division) is outside: continuous vesting accounts are instantiated cliff-shaped.',
        'bounds': SDB_BOUNDS + ['1 account, 8 kinds, end time and block time in [0, 2^40)', '6 routes: DestroyAccount, CreateAccount, Suicide+commit, touch+commit, pay+commit, spend+commit'],
        'outside': ['which addresses contract code can reach (EVM interpreter)', 'x/bank internals (model mirrors the SDK source)', 'linear in-between vesting amounts'],
        'assumptions': SDB_ASSUMPTIONS,
    },
    'C04': {
        'pkgs': ['./zzverif/hsdb', './zzverif/htx'],
        'harnesses': [
            {'fn': H + 'H_C04_2_Ledger'},
            {'fn': T + 'H_C04_1_TxConservation', 'over': {'max-decisions': 1500, 'max-paths': 60000}, 'must_reach': ['committed-path', 'core-error-path', 'refund-path']},
            {'fn': T + 'H_C04_1b_TxConservationAll', 'over': {'max-decisions': 1500, 'max-paths': 400000}, 'thorough_only': True},
            {'fn': T + 'H_C04_1c_TxConservationSymbolicPrices', 'over': {'max-decisions': 1500, 'max-paths': 400000, 'timeout-ms': 60000}, 'thorough_only': True},
        ],
        'level_text': 'Bounded symbolic execution of one Ethereum transaction through the real EVM-lane code that moves coins (DLDeductFeeDecorator with the SDK fee deduction and the real EthereumTxFeeChecker, DLIncrementSequenceDecorator, ELSetupExecutionDecorator, the x/evm message server EthereumTx -> ApplyTransaction -> ApplyMessageWithConfig -> TransitionDb -> the fork\'s real EVM.Call/Create, the context-based StateDB and its commit) under the BaseApp branch discipline; only the bytecode interpreter loop is a symbolic script. z3 decides the ledger identities (supply never grows, fee collector gains exactly the fee paid, balance changes sum to minus the burns, EVM module account ends at zero) on every path, for every gas limit, gas use, refund, value and balance in the bounds.',
        'level_note': 'Trusted: gosym, solvers, store/codec/account/bank/tx/receipt models; the interpreter contract (acts only through vm.StateDB, never returns more gas than given). Quick tier uses small concrete sets for gas prices and base fee (all products linear); the thorough tier adds fully symbolic prices, creation transactions and value-moving scripts.',
        'bounds': TX_BOUNDS + ['H_C04_2: one StateDB balance mutator from an arbitrary ledger (amounts < 2^255)'],
        'outside': ['coins minted by other SDK modules in the same block (mint, distribution)', 'the EVM bytecode interpreter (symbolic script of 1 action)', 'more than one transaction per block (cumulative effects are covered by C13 harnesses)'],
        'assumptions': TX_ASSUMPTIONS,
    },
    'C05': {
        'pkgs': ['./zzverif/htx'],
        'harnesses': [
            {'fn': T + 'H_C05_1_ChargeLaw', 'over': {'max-decisions': 1500, 'max-paths': 60000}, 'must_reach': ['committed', 'discarded', 'rejected', 'refund-capped-at-one-fifth']},
            {'fn': T + 'H_C05_1b_ChargeLawAll', 'over': {'max-decisions': 1500, 'max-paths': 400000}, 'thorough_only': True},
            {'fn': T + 'H_C05_1c_ChargeLawValueMoves', 'over': {'max-decisions': 1500, 'max-paths': 400000}, 'thorough_only': True},
        ],
        'level_text': 'Bounded symbolic execution of one Ethereum transaction through the real EVM-lane fee, nonce and execution code (as for C04): z3 decides on every path that the sender pays exactly gasUsed x effective price plus the value actually transferred (gasLimit x price when the execution is discarded, nothing when rejected at admission), that gas used equals an independent account of intrinsic gas + gas consumed - min(refund counter, consumed/5), lies within [.., gas limit], and that the SDK gas meter and the receipt report the same gas used.',
        'level_note': 'Known finding C05-F12 (open): with a storage refund the receipt gas used can be below the intrinsic gas (go-ethereum accounting, required by C02). Cumulative gas over several transactions is checked under C13.',
        'bounds': TX_BOUNDS + ['quick: call of the scripted contract / plain transfer, script action none / storage write with refund / log, symbolic sender nonce; thorough adds creation (sender nonce 5) with those actions, and calls whose contract transfers value out or self-destructs'],
        'outside': ['the interpreter\'s own gas schedule (the script consumes a symbolic amount of gas)', 'multi-transaction blocks (C13)', 'creation with a symbolic sender nonce (the created address becomes a symbolic hash that may alias every account: did not finish in 25 minutes)'],
        'assumptions': TX_ASSUMPTIONS,
    },
    'C06': {
        'pkgs': ['./zzverif/htx', './zzverif/hante'],
        'harnesses': [
            {'fn': A + 'H_C06_1_Admission', 'must_reach': ['admitted', 'refused']},
            {'fn': T + 'H_C06_2_ExactlyOneNonce', 'over': {'max-decisions': 1500, 'max-paths': 100000}, 'must_reach': ['committed', 'committed-create', 'committed-vm-error', 'discarded']},
        ],
        'level_text': 'Bounded symbolic execution of one Ethereum transaction through the real nonce machinery (DLIncrementSequenceDecorator in the ante branch, the restore in the EthereumTx message server, the re-increment in TransitionDb for calls and in the fork\'s EVM.create for creations, commit/discard by the runTx model): z3 decides that for every sender sequence in [0, 2^63) and every outcome (success, VM error, consensus error, panic) the sequence ends exactly one higher, and stays put when the transaction is rejected at admission.',
        'level_note': 'H_C06_1 runs the real admission decorators (extension options, validate-basic, EOA check, timeout, memo, signature verification with go-ethereum\'s real signer logic for chain id / replay protection, sequence increment) on a single Ethereum message with up to two of 20 deviations: admitted iff none. ECDSA recovery and the signature hash are uninterpreted (the registered signer / hash of the transaction); native replay signs real transactions. Cosmos-lane signature verification is SDK code (not encoded).',
        'bounds': TX_BOUNDS,
        'outside': ['secp256k1 / Keccak (uninterpreted)', 'Cosmos-lane signature and sequence handling (SDK)', 'more than two simultaneous deviations'],
        'assumptions': TX_ASSUMPTIONS,
    },
    'C07': {
        'pkgs': ['./zzverif/hante'],
        'harnesses': [
            {'fn': A + 'H_C07_1_CosmosLaneScreening', 'over': {'max-paths': 100000}, 'must_reach': ['accepted', 'rejected']},
            {'fn': A + 'H_C06_1_Admission', 'must_reach': ['admitted', 'refused']},
        ],
        'level_text': 'H_C06_1: the real EVM-lane admission decorators on a single Ethereum message with up to two of 20 deviations (memo, timeout, foreign / non-critical extension option, Cosmos signatures, signer infos, payer, granter, fee amount / denom / gas limit differing from the embedded transaction, ...): admitted iff none. H_C07_1: bounded exhaustive symbolic execution of the real Cosmos-lane decorators (CLRejectEthereumMsgs, CLRejectAuthzMsgs with the default disabled list and depth cap, CLVestingMessagesAuthorization) over transaction shapes: a spine of up to 4 nesting levels, optional siblings (MsgSend, MsgExec{MsgSend}, top-level vesting message) before/after the spine element of each level, one special message of 6 kinds (x3 vesting kinds, x4 disabled urls) at the end of the spine; acceptance is compared with an independent policy predicate on every shape.',
        'level_note': 'The SDK decorators embedded in the dual-lane ones (the Cosmos side) are not executed; the SDK tx wrapper\'s ValidateBasic is reduced to its no-signatures answer; protobuf Any packing and sdk.MsgTypeURL are models (registry of cached values / table of registered names).',
        'bounds': ['nesting depth of the special message 1..4 (cap is 3)', '<= 2 siblings per level, sibling kinds {MsgSend, MsgExec{MsgSend}, (level 1) MsgCreateVestingAccount to a proven address}', '18,941 shapes'],
        'outside': ['the single-Ethereum-message acceptance conditions (signatures, payer, memo, timeout, extension options, fee equality)', 'messages routed outside the ante handler (gov, ICA)', 'wider / deeper trees'],
        'assumptions': COMMON_ASSUMPTIONS + ['authz.MsgExec.GetMessages / Grant.GetAuthorization return the packed messages (registry model of protobuf Any cached values); sdk.MsgTypeURL is a table of the registered names of the message types used'],
    },
    'C10': {
        'pkgs': ['./zzverif/hcpc'],
        'harnesses': [
            {'fn': C + 'H_C10_1_OneCall', 'over': {'max-paths': 200000}, 'must_reach': ['call1-success-path', 'call1-failure-path']},
            {'fn': C + 'H_C10_3_Views', 'must_reach': ['after-successful-transfer']},
            {'fn': C + 'H_C10_2_TwoCalls', 'must_reach': ['spend-after-approve', 'call2-success-path', 'call2-failure-path']},
            {'fn': C + 'H_C10_2b_AnyThenSpend', 'over': {'max-paths': 600000}, 'thorough_only': True, 'must_reach': ['call2-success-path', 'call2-failure-path']},
        ],
        'level_text': 'Inductive step by bounded symbolic execution: from an arbitrary symbolic bank ledger and allowance table, one state-changing ERC-20 call (transfer, transferFrom, approve, burn, burnFrom; caller and address arguments over {3 accounts, zero address, cpc module account}; amount in [0, 2^256)) is run through the fork\'s real EVM.Call -> RunPrecompiledContract -> RunCustom -> the repo\'s wrapper and executors (precompiles wired by the real Keeper.NewEVM), and compared by z3 with a reference ERC-20 ledger: success iff the reference allows, exact amounts, exactly one matching log, allowance rule incl. the infinite allowance, nothing else touched, failure changes nothing; the views equal bank state, also under STATICCALL.',
        'level_note': 'ABI encoding/decoding and the JSON of the typed metadata are inverse-pair models; bank is the model mirroring the SDK. Native replay uses the real ABI codec and real bank keeper.',
        'bounds': ['4 holders (3 accounts + cpc module account) with symbolic balances < 2^128, supply = sum + rest', 'the allowance the call depends on and one bystander allowance: none / zero / finite symbolic / infinite', 'quick: 1 arbitrary call; approve by X1 for X2 followed by any call of X2 on the state the approve left; thorough: an arbitrary call followed by transferFrom / burnFrom of X2 from X1 (arbitrary pairs of calls are 6331^2 paths: covered by the inductive step, not enumerated)'],
        'outside': ['ABI byte-level decoding', 'x/bank internals', 'calls made from contract bytecode (the caller is an address; the precompile sees only caller.Address())'],
        'assumptions': TX_ASSUMPTIONS,
    },
    'C16': {
        'pkgs': ['./zzverif/hante'],
        'harnesses': [
            {'fn': A + 'H_C07_1_CosmosLaneScreening', 'over': {'max-paths': 100000}, 'must_reach': ['accepted', 'rejected']},
            {'fn': A + 'H_C16_2_SubmitProof', 'must_reach': ['stored', 'refused']},
        ],
        'level_text': 'H_C16_2: the real vauth message server SubmitProofExternalOwnedAccount (message and stored-proof ValidateBasic, fee deduction and burn, SaveProof/HasProof/GetProof) with the signature check as an uninterpreted predicate, symbolic submitter balance, submitter = / != account, signature by the account key / another key / garbage, with / without prior proof: stored iff authorised, exact fee burnt, refusal changes nothing, second submission refused. H_C07_1: bounded exhaustive symbolic execution of the real Cosmos-lane decorators over transaction shapes (see C07): a vesting-creation message of any of the three kinds survives the ante handler only at top level and only for an address with a stored ownership proof; nested in MsgExec at any explored depth/position, granted through MsgGrant, or beside a proven one but itself unproven, it is refused.',
        'level_note': 'Keccak and secp256k1 recovery inside vauth VerifySignature are uninterpreted (the harness registers which address the signature is valid for); native replay uses real signatures.',
        'bounds': ['as C07'],
        'outside': ['ECDSA / Keccak', 'hex string syntax of signatures beyond the concrete ones used'],
        'assumptions': COMMON_ASSUMPTIONS,
    },
    'C08': {
        'pkgs': ['./zzverif/hsdb', './zzverif/htx'],
        'harnesses': [
            {'fn': H + 'H_C08_1_StateDBIsolation', 'over': {'max-paths': 100000}},
            {'fn': T + 'H_C08_2a_EthCall', 'over': {'max-decisions': 2000, 'max-paths': 100000}, 'must_reach': ['eth-call-executed']},
            {'fn': T + 'H_C08_2b_NoCommit', 'over': {'max-decisions': 2000, 'max-paths': 100000}, 'must_reach': ['executed']},
            {'fn': T + 'H_C08_2c_TrialExecution', 'over': {'max-decisions': 2000, 'max-paths': 100000}, 'must_reach': ['trial-deliver', 'trial-mempool-accepted']},
            {'fn': T + 'H_C08_3_Prediction', 'over': {'max-decisions': 2000, 'max-paths': 100000}, 'must_reach': ['predicted']},
            {'fn': T + 'H_C08_3b_CallPredictsDelivery', 'over': {'max-decisions': 2000, 'max-paths': 100000}, 'must_reach': ['predicted', 'predicted-with-refund', 'refused-by-both']},
            {'fn': T + 'H_C08_4_EstimateGas', 'over': {'max-decisions': 1500, 'max-paths': 20000}, 'must_reach': ['estimated', 'estimate-refused', 'estimate-above-gas-used']},
            {'fn': T + 'H_C08_4b_EstimateGasWide', 'thorough_only': True, 'over': {'max-decisions': 2500, 'max-paths': 100000}, 'must_reach': ['estimated', 'estimate-refused', 'estimate-above-gas-used']},
        ],
        'level_text': 'Bounded symbolic execution of the no-commit paths of the real code: the context-based StateDB without CommitMultiStore (14 operations, snapshot/revert brackets), the real Keeper.EthCall, ApplyMessageWithConfig(commit=false) and the real mempool trial execution ELExecWithoutErrorDecorator (check / re-check / simulate / deliver), over a symbolic ledger and a symbolic contract behaviour incl. storage writes, value transfers, self-destruct and creation with code deposit: z3 decides on every path that every persistent store (for the trial execution: every store, incl. the rolled-back sender sequence and flags) and the event manager of the caller\'s context are unchanged; and, by self-composition, that commit=false and commit=true return the same gas used, VM error and return data, and that eth_call on a query context (no ante handler ran) reports the same gas used, VM error and return data as the same call delivered as the next transaction through the fee deduction of the ante handler (admissible transactions, sender able to pay fee and value), also when a storage refund is earned.',
        'level_note': 'EstimateGas: the real Keeper.EstimateGas (binary search over real state transitions) against a stub contract that needs a symbolic head-room on entry (monotone gas dependence), consumes a symbolic amount below it and earns a symbolic refund, estimation window 32 (quick) / 100 (thorough) gas units above the intrinsic gas; contracts whose success is not monotone in the gas supplied are outside. The trace endpoints are not encoded: tracer isolation is outside. ApplyMessageWithConfig writes per-tx bookkeeping into the transient store of the context it is given also with commit=false; queries rely on BaseApp handing them a throw-away branch (assumption).',
        'bounds': SDB_BOUNDS + TX_BOUNDS,
        'outside': ['eth_estimateGas over windows wider than 100 gas units or for contracts with non-monotone gas dependence', 'TraceTx / TraceBlock', 'gRPC plumbing, BaseApp query contexts'],
        'assumptions': TX_ASSUMPTIONS,
    },
    'C09': {
        'level_text': 'Bounded model checking of the real CalculateBaseFee / EndBlock / misc.CalcBaseFee code: every feasible path is enumerated and each assertion (no panic, EIP-1559 value, floors) is decided by z3 over the full integer ranges stated in the bounds; this is the right level because the property is pure integer arithmetic whose failures sit at rare boundary values (zero gas target, >int64 fees).',
        'level_note': 'Trusted: gosym interpreter and Int encoding, z3 5.1.0 (cross-checked by z3 4.8.12/cvc5), store/codec/logger models; BaseApp block-gas-meter rule (limited iff MaxGas > 0) is modelled in the harness; fee-market end blocker ordering is not checked.',
        'pkgs': ['./x/feemarket/keeper', './zzverif/hante'],
        'harnesses': [
            {'fn': P + 'x/feemarket/keeper.H_C09_1_CalcBaseFee'},
            {'fn': P + 'x/feemarket/keeper.H_C09_3_EndBlock'},
            {'fn': A + 'H_C09_2_FeeAdmission', 'must_reach': ['accepted', 'refused']},
        ],
        'bounds': ['H_C09_2: base fee, tip, cap, gas price < 2^100, fee < 2^200, global and validator minimum gas price (18 decimals raw) < 2^160, gas in {1, 21000, 10^6}, 4 transaction kinds (Cosmos without / with dynamic-fee extension, Ethereum legacy / dynamic), deliver and check mode', 'base fee in [0, 2^252)', 'min gas price (18-decimals raw) in [0, 2^256)', 'consensus MaxGas any int64 >= -1 (incl. -1, 0, 1), block params present or absent',
                   'block gas used any uint64 (meter kind as BaseApp.getBlockGasMeter)', 'no loops: no unwinding bound needed'],
        'outside': ['base fees >= 2^252 (the next base fee, up to 9/8 of it, no longer fits sdkmath.Int)', 'module-manager ordering of end blockers', 'London fork not active (config is the default chain config, all forks at block 0)'],
        'assumptions': COMMON_ASSUMPTIONS,
    },
    'C18': {
        'pkgs': ['./zzverif/hcpc', './x/vauth'],
        'harnesses': [
            {'fn': C + 'H_C18_1_Evm'},
            {'fn': C + 'H_C18_2_FeeMarket'},
            {'fn': C + 'H_C18_3_Cpc'},
            {'fn': P + 'x/vauth.H_C18_4_VAuth', 'must_reach': ['checked']},
        ],
        'level_text': 'Bounded symbolic execution of the real export -> init round trip of the four custom modules: evm.ExportGenesis/InitGenesis over two contracts with two code variants and symbolic storage (absent and present slots) plus an externally owned account, z3 deciding that code, code hash, every slot, the whole x/evm store and the params are reproduced and that the second export equals the first; feemarket with a symbolic base fee and minimum gas price; cpc.ExportGenesis/InitGenesis over every combination of bech32/staking/ERC-20 contracts, whitelist and a symbolic allowance; the vauth module\'s ExportGenesis/InitGenesis with and without a stored proof.',
        'level_note': 'Known findings C18-F1 (cpc export drops ERC-20 precompiles, their denomination index and allowances) and C18-F2 (vauth export drops ownership proofs) are open: repair needs new genesis fields. Genesis JSON is an inverse-pair model (native replay uses the real ProtoCodec).',
        'bounds': ['evm: 2 contracts x {2 code variants} x 2 slots each {absent | symbolic non-zero byte}, 1 EOA', 'feemarket: base fee and min gas price (18-decimals raw) < 2^250', 'cpc: {bech32} + optional staking + optional ERC-20 + optional allowance, whitelist of 0-2 addresses'],
        'outside': ['app/export.go orchestration and the SDK modules\' own exports (auth accounts are re-created by the harness)', 'self-destructed / deleted contracts in the history (the exported state is a store content, histories are not replayed)'],
        'assumptions': TX_ASSUMPTIONS,
    },
    'C20': {
        'pkgs': ['./zzverif/hcpc', './zzverif/htx', './x/feemarket/keeper', './zzverif/hsdb', './rpc/ethereum/pubsub', './rpc/namespaces/ethereum/eth/filters'],
        'harnesses': [
            {'fn': C + 'H_C20_2_PrecompileDispatch', 'must_reach': ['short-input']},
            {'fn': H + 'H_C20_3_BeginBlockRing', 'must_reach': ['pruned', 'kept']},
            {'fn': P + 'rpc/ethereum/pubsub.H_C20_4_EventBus', 'native': False, 'over': {'max-decisions': 3000, 'max-paths': 400000}, 'must_reach': ['quiesced', 'all-events-delivered']},
            {'fn': P + 'rpc/ethereum/pubsub.H_C20_5_TopicReuse', 'native': False, 'over': {'max-decisions': 3000}, 'must_reach': ['re-added']},
            {'fn': P + 'rpc/namespaces/ethereum/eth/filters.H_C20_6_EventSystem', 'native': False, 'over': {'max-decisions': 4000, 'max-paths': 1000000}, 'must_reach': ['quiesced', 'all-events-delivered', 'second-subscription-made', 'second-subscription-refused']},
            {'fn': P + 'rpc/namespaces/ethereum/eth/filters.H_C20_7_FilterAPI', 'native': False, 'over': {'max-decisions': 6000, 'max-paths': 1000000}, 'must_reach': ['quiesced']},
            {'fn': P + 'rpc/namespaces/ethereum/eth/filters.H_C20_7b_FilterAPIDeeper', 'native': False, 'thorough_only': True, 'over': {'max-decisions': 6000, 'max-paths': 3000000}, 'must_reach': ['quiesced']},
            {'fn': P + 'rpc/namespaces/ethereum/eth/filters.H_C20_6b_EventSystemDeeper', 'native': False, 'thorough_only': True, 'over': {'max-decisions': 4000, 'max-paths': 6000000}, 'must_reach': ['quiesced', 'all-events-delivered']},
            {'fn': P + 'rpc/ethereum/pubsub.H_C20_4b_EventBusTwoSubscribers', 'native': False, 'thorough_only': True, 'over': {'max-decisions': 3000, 'max-paths': 3000000}, 'must_reach': ['quiesced', 'all-events-delivered']},
            {'fn': P + 'rpc/ethereum/pubsub.H_C20_4c_EventBusTwoPreemptions', 'native': False, 'thorough_only': True, 'over': {'max-decisions': 3000, 'max-paths': 3000000}, 'must_reach': ['quiesced', 'all-events-delivered']},
            {'fn': T + 'H_C13_1_Block2', 'over': {'max-decisions': 3000, 'max-paths': 100000}},
            {'fn': P + 'x/feemarket/keeper.H_C09_3_EndBlock'},
        ],
        'level_text': 'The engine treats every panic not observed by the harness as a failure; this check runs the harnesses whose panics would be fatal or user-triggerable: (1) arbitrary call data of 0-6 symbolic bytes (optionally with a known selector) to the ERC-20 and staking precompiles through the fork\'s real Call/StaticCall -> RunPrecompiledContract -> RunCustom -> the repo\'s wrapper, with symbolic gas: never a panic; (2) a block of two Ethereum transactions of 8 outcome classes followed by the real x/evm EndBlock: never a panic, every admitted transaction has a receipt, a failure in one transaction leaves the bookkeeping of the next consistent; (3) the fee market EndBlock for every base fee, minimum gas price, consensus MaxGas >= -1 and gas used; (4) the real x/evm BeginBlock (chain id, block-hash ring: store, prune exactly height-256, idempotent) and the BLOCKHASH function at every height: never a panic; (5) the JSON-RPC event bus (rpc/ethereum/pubsub) with its publisher goroutine, a producer closing the topic source, consumer goroutines of the shape used by filters/api.go and concurrent subscribe / unsubscribe / RemoveTopic, executed under the engine\'s delay-bounded scheduler: every schedule within the delay bound is a path; no goroutine panics (double close, send on closed channel), no deadlock, consumers terminate, the topic disappears, a re-registered topic keeps its subscribers; (6) the real filter event system (NewEventSystem with eventLoop and consumeEvents, SubscribeNewHeads, Subscription.Unsubscribe, over the real event bus) with CometBFT events arriving on the websocket response channel while a block filter is uninstalled and another one installed: no goroutine panics, no deadlock, the uninstalled consumer terminates; (7) the real PublicFilterAPI (NewPublicAPI with its timeout loop, NewBlockFilter with its real consumer goroutine, GetFilterChanges, UninstallFilter) with each JSON-RPC request in its own goroutine and a header event arriving: no panic, no deadlock, every request returns, an uninstalled filter is gone.',
        'level_note': 'Narrow claim. Decoding of arbitrary transaction bytes (protobuf / RLP / ABI by reflection) and gRPC query argument decoding are outside the engine. Concurrency: the event bus and the filter event system are encoded (H_C20_6 uses a consumer of the shape of the goroutines in api.go, H_C20_7 the real block-filter API; log / pending-transaction filters, websocket subscriptions and the websocket server are outside); the scheduler interleaves at synchronisation operations (go, channel operations, select, Mutex / RWMutex / WaitGroup operations, goroutine exit), which is exhaustive for data-race-free executions - data races themselves (unsynchronised map access) are not detected; timers never fire (time-outs are not taken), the CometBFT websocket client is a stub whose Subscribe / Unsubscribe succeed. Schedule counterexamples are engine-level (the decision list in the replay file is the schedule); the Go scheduler cannot be forced natively.',
        'bounds': ['(1) input length 0..6 symbolic bytes, 2 contracts, symbolic gas, CALL / STATICCALL', '(2) as C13 quick', '(3) as C09', '(5) event bus: 1 topic, 1 producer with 0-2 events, 2 consumers (one leaving early), main removing the topic / subscribing again / idle; delay bound 3 w.r.t. the deterministic round-robin non-preemptive scheduler (thorough: 4; 5 with one consumer and 0-1 events); topic re-registration: delay bound 4; at most 16 goroutines', '(6) event system: 1 event (thorough 2), first subscription uninstalled, second installed meanwhile; delay bound 3 (thorough 4)', '(7) filter API: 2 block filters, 1 header event, poll and uninstall of the first, 4 concurrent requests; delay bound 2 (thorough 3; bound 4 = 4.6 million schedules was run once, clean)', '(4) x/evm begin blocker: one inductive step at a symbolic height in [1, 2^62) from any state satisfying the block-hash ring invariant (one arbitrary older entry, present or absent), fixed non-zero header hash, BLOCKHASH for an arbitrary other height'],
        'outside': ['byte-level decoders', 'log / pending-transaction filters and websocket subscriptions of the filter API, filter time-outs (timers never fire), websocket server; data races; schedules beyond the delay bound', 'begin/end blockers of the Cosmos SDK modules (staking, distribution, ...)'],
        'assumptions': TX_ASSUMPTIONS,
    },
}
