# Per-property check configuration consumed by bin/check.
P = 'github.com/EscanBE/evermint/v12/'

COMMON_ASSUMPTIONS = [
    'Trusted base: the gosym interpreter (SSA semantics, Int encoding with explicit mod-2^k wrap), the SMT solvers, and the environment models in /verif/harness/model (DESIGN.md section 3).',
    'Store model: finite closed-world key/value lists; CacheMultiStore = functional copy, Write = replace parent content.',
    'Codec model: inverse-pair stub (Marshal returns an opaque handle of a deep copy, Unmarshal returns it); native replay uses the real protobuf codec.',
    'Logging, telemetry and error-message formatting are no-ops / opaque strings.',
]

NOT_APPLICABLE = {
    'C19': "substance lives inside Keccak-256, secp256k1, HMAC-SHA512/PBKDF2 and reflection-driven amino/protobuf/EIP-712 rendering: beyond bounded SMT reach (hash/curve arithmetic), and with those stubbed as uninterpreted functions binding/injectivity would hold by assumption (DESIGN.md section 6)",
}

SDB_ASSUMPTIONS = COMMON_ASSUMPTIONS + [
    'Account keeper model: authkeeper.AccountKeeper methods replaced by model.AK* (accounts as real SDK account objects in the model store); native replay uses the real auth keeper.',
    'Bank model: model.BK mirrors cosmos-sdk v0.50.10 x/bank send/mint/burn control flow incl. locked coins and events; native replay uses the real bank keeper.',
    'Address/number renderings (bech32, hex, decimal) are injective uninterpreted renderings with exact inverses.',
    'Package-level state of all packages is initialised once per engine worker and kept across paths.',
]

CHECKS = {
    'C04': {
        'pkgs': ['./zzverif/hsdb'],
        'harnesses': [
            {'fn': P + 'zzverif/hsdb.H_C04_2_Ledger'},
        ],
        'level_text': 'Bounded model checking of the real StateDB balance mutators over a symbolic bank ledger: every path of AddBalance/SubBalance (through the real sdk.Coins / sdkmath code) is enumerated and the ledger identities are decided by z3 for all amounts below 2^255.',
        'level_note': 'Trusted: gosym, solvers, store/codec/account/bank models (bank model mirrors SDK source; replayed natively against the real bank keeper).',
        'bounds': ['amounts, balances, supply in [0, 2^255)', '1 symbolic address (20 symbolic bytes), 2 denominations', 'one mutator call'],
        'outside': ['coins minted by other SDK modules', 'the EVM interpreter'],
        'assumptions': SDB_ASSUMPTIONS,
    },
    'C09': {
        'level_text': 'Bounded model checking of the real CalculateBaseFee / EndBlock / misc.CalcBaseFee code: every feasible path is enumerated and each assertion (no panic, EIP-1559 value, floors) is decided by z3 over the full integer ranges stated in the bounds; this is the right level because the property is pure integer arithmetic whose failures sit at rare boundary values (zero gas target, >int64 fees).',
        'level_note': 'Trusted: gosym interpreter and Int encoding, z3 5.1.0 (cross-checked by z3 4.8.12/cvc5), store/codec/logger models; BaseApp block-gas-meter rule (limited iff MaxGas > 0) is modelled in the harness; fee-market end blocker ordering is not checked.',
        'pkgs': ['./x/feemarket/keeper'],
        'harnesses': [
            {'fn': P + 'x/feemarket/keeper.H_C09_1_CalcBaseFee'},
            {'fn': P + 'x/feemarket/keeper.H_C09_3_EndBlock'},
        ],
        'bounds': ['base fee in [0, 2^252)', 'min gas price (18-decimals raw) in [0, 2^256)', 'consensus MaxGas any int64 >= -1 (incl. -1, 0, 1), block params present or absent',
                   'block gas used any uint64 (meter kind as BaseApp.getBlockGasMeter)', 'no loops: no unwinding bound needed'],
        'outside': ['base fees >= 2^252 (the next base fee, up to 9/8 of it, no longer fits sdkmath.Int)', 'module-manager ordering of end blockers', 'London fork not active (config is the default chain config, all forks at block 0)'],
        'assumptions': COMMON_ASSUMPTIONS,
    },
}
