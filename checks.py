# Per-property check configuration consumed by bin/check.
P = 'github.com/EscanBE/evermint/v12/'

COMMON_ASSUMPTIONS = [
    'Trusted base: the gosym interpreter (SSA semantics, Int encoding with explicit mod-2^k wrap), the SMT solvers, and the environment models in /verif/harness/model (DESIGN.md section 3).',
    'Store model: finite closed-world key/value lists; CacheMultiStore = functional copy, Write = replace parent content.',
    'Codec model: inverse-pair stub (Marshal returns an opaque handle of a deep copy, Unmarshal returns it); native replay uses the real protobuf codec.',
    'Logging, telemetry and error-message formatting are no-ops / opaque strings.',
]

NOT_APPLICABLE = {
    'C19': "substance lives inside Keccak-256, secp256k1, HMAC-SHA512/PBKDF2 and reflection-driven amino/protobuf/EIP-712 rendering: beyond bounded SMT reach (hash/curve arithmetic), and with those stubbed as uninterpreted functions binding/injectivity would hold by assumption (DESIGN.md section 6)",
}

SDB_ASSUMPTIONS = COMMON_ASSUMPTIONS + [
    'Account keeper model: authkeeper.AccountKeeper methods replaced by model.AK* (accounts as real SDK account objects in the model store); native replay uses the real auth keeper.',
    'Bank model: model.BK mirrors cosmos-sdk v0.50.10 x/bank send/mint/burn control flow incl. locked coins and events; native replay uses the real bank keeper.',
    'Address/number renderings (bech32, hex, decimal) are injective uninterpreted renderings with exact inverses.',
    'Package-level state of all packages is initialised once per engine worker and kept across paths.',
]

H = P + 'zzverif/hsdb.'

SDB_BOUNDS = ['StateDB harnesses: 2 accounts (20 symbolic address bytes each, distinct) unless stated, account kinds as listed per harness', 'amounts and balances in [0, 2^128), supply = sum of harness balances + symbolic rest in [0, 2^130)',
              'storage: slots {1,2} with symbolic one-byte values; code: two fixed byte strings', 'nonces < 2^62']

CHECKS = {
    'C01': {
        'pkgs': ['./zzverif/hsdb'],
        'harnesses': [
            {'fn': H + 'H_C01_1_CommitOrder', 'over': {'max-decisions': 3000, 'max-paths': 60000}, 'must_reach': ['two-destroyed-accounts-with-balances']},
            {'fn': H + 'H_C01_2_Clock', 'must_reach': ['vesting-destroy-refused']},
        ],
        'level_text': 'Self-composition under environment non-determinism, decided by bounded symbolic execution of the real StateDB commit/destroy code: the same history is executed twice with independently chosen Go-map iteration orders (every permutation explored) and independent symbolic wall-clock values, and z3 decides equality of all stores and of the emitted event sequence for every symbolic balance/kind/end time in the bounds.',
        'level_note': 'Only the determinism sources that /repo code itself introduces in the StateDB commit path (map iteration at commit, wall clock in the destroy guard) are decided; SDK modules, CometBFT, IAVL hashing and goroutine scheduling are outside. Trusted: gosym, solvers, store/account/bank models.',
        'bounds': ['H_C01_1: 2-3 touched accounts at fixed distinct addresses, each {empty base account | base account with symbolic positive balances in 2 denominations | coins without auth account}, each {touched | self-destructed}; every permutation of every map ranged over during CommitMultiStore, chosen independently in the two executions',
                   'H_C01_2: 1 account of 8 kinds (none, base, module, continuous/delayed/periodic/permanent-locked vesting, bare base vesting), symbolic end time and block time in [0, 2^40), 4 destroy routes, time.Now() fresh symbolic value per call in [1970, 2200]'] ,
        'outside': ['determinism of SDK modules (bank, staking, distribution), CometBFT, IAVL', 'goroutine scheduling, node-local configuration', 'staking precompile validator choice, NewEVM block context, per-block bookkeeping (not yet encoded)', 'more than 3 accounts destroyed in one transaction'],
        'assumptions': SDB_ASSUMPTIONS,
    },
    'C03': {
        'pkgs': ['./zzverif/hsdb'],
        'harnesses': [
            {'fn': H + 'H_C03_1_Erase', 'over': {'max-paths': 60000}},
            {'fn': H + 'H_C03_1a_EraseJournalPQ', 'over': {'max-paths': 60000}},
            {'fn': H + 'H_C03_3_Keep', 'over': {'max-paths': 60000}},
            {'fn': H + 'H_C03_1b_ErasePQ', 'over': {'max-paths': 400000}, 'thorough_only': True},
            {'fn': H + 'H_C03_1c_EraseQQ', 'over': {'max-paths': 400000}, 'thorough_only': True},
            {'fn': H + 'H_C03_2_Nesting', 'over': {'max-paths': 400000}, 'thorough_only': True},
        ],
        'level_text': 'Metamorphic self-composition on the real context-based StateDB (vm.NewStateDB over the real sdk.Context branching): "P; snapshot; Q; revert" is compared with "P" in two identical symbolic worlds, for 14 operation kinds incl. a keeper write through the current context (what a stateful precompile does); z3 decides equality of every StateDB getter, of all stores after commit and of the event sequence on every path.',
        'level_note': 'The EVM interpreter and real call frames are not executed: frames are modelled as Snapshot/RevertToSnapshot brackets around StateDB operations, which is exactly the interface the interpreter uses. Staking/distribution effects are represented by a bank write through GetCurrentContext() (the revert mechanism, context branching, is the real one).',
        'bounds': SDB_BOUNDS + ['quick: |P|=0,|Q|=1 over all 14 kinds with rich account a (code/storage optional); |P|=1,|Q|=1 over the 7 journal kinds; keep (no revert) with 1-2 extra snapshots',
                                'thorough: |P|=1,|Q|=1 and |Q|=2 over all 14 kinds (plain accounts), two-level nesting incl. stale snapshot id'],
        'outside': ['contract call trees executed by the EVM interpreter', 'effects inside SDK staking/distribution keepers', 'more than 2 operations per frame, more than 2 nesting levels'],
        'assumptions': SDB_ASSUMPTIONS,
    },
    'C15': {
        'pkgs': ['./zzverif/hsdb'],
        'harnesses': [
            {'fn': H + 'H_C15_1_DestroyGuard', 'must_reach': ['removed-account-holding-both-denoms', 'removed-expired-vesting-account']},
        ],
        'level_text': 'Bounded symbolic execution of the real DestroyAccount / CreateAccount / Suicide / CommitMultiStore / IsEmptyAccount code on one account of every kind with symbolic vesting end time, block time, nonce, balances in two denominations, code and storage: z3 decides on every path that an auth record disappears or is replaced only when the guard allows it, and that a removed account is removed completely and burns exactly what it held.',
        'level_note': 'Oracle follows GetEndTime(): a PermanentLockedAccount reports end time 0 and is therefore not protected by the guard (noted in DESIGN.md, not asserted). Locked-coin arithmetic of linear vesting (LegacyDec division) is outside: continuous vesting accounts are instantiated cliff-shaped.',
        'bounds': SDB_BOUNDS + ['1 account, 8 kinds, end time and block time in [0, 2^40)', '6 routes: DestroyAccount, CreateAccount, Suicide+commit, touch+commit, pay+commit, spend+commit'],
        'outside': ['which addresses contract code can reach (EVM interpreter)', 'x/bank internals (model mirrors the SDK source)', 'linear in-between vesting amounts'],
        'assumptions': SDB_ASSUMPTIONS,
    },
    'C04': {
        'pkgs': ['./zzverif/hsdb'],
        'harnesses': [
            {'fn': P + 'zzverif/hsdb.H_C04_2_Ledger'},
        ],
        'level_text': 'Bounded model checking of the real StateDB balance mutators over a symbolic bank ledger: every path of AddBalance/SubBalance (through the real sdk.Coins / sdkmath code) is enumerated and the ledger identities are decided by z3 for all amounts below 2^255.',
        'level_note': 'Trusted: gosym, solvers, store/codec/account/bank models (bank model mirrors SDK source; replayed natively against the real bank keeper).',
        'bounds': ['amounts, balances, supply in [0, 2^255)', '1 symbolic address (20 symbolic bytes), 2 denominations', 'one mutator call'],
        'outside': ['coins minted by other SDK modules', 'the EVM interpreter'],
        'assumptions': SDB_ASSUMPTIONS,
    },
    'C09': {
        'level_text': 'Bounded model checking of the real CalculateBaseFee / EndBlock / misc.CalcBaseFee code: every feasible path is enumerated and each assertion (no panic, EIP-1559 value, floors) is decided by z3 over the full integer ranges stated in the bounds; this is the right level because the property is pure integer arithmetic whose failures sit at rare boundary values (zero gas target, >int64 fees).',
        'level_note': 'Trusted: gosym interpreter and Int encoding, z3 5.1.0 (cross-checked by z3 4.8.12/cvc5), store/codec/logger models; BaseApp block-gas-meter rule (limited iff MaxGas > 0) is modelled in the harness; fee-market end blocker ordering is not checked.',
        'pkgs': ['./x/feemarket/keeper'],
        'harnesses': [
            {'fn': P + 'x/feemarket/keeper.H_C09_1_CalcBaseFee'},
            {'fn': P + 'x/feemarket/keeper.H_C09_3_EndBlock'},
        ],
        'bounds': ['base fee in [0, 2^252)', 'min gas price (18-decimals raw) in [0, 2^256)', 'consensus MaxGas any int64 >= -1 (incl. -1, 0, 1), block params present or absent',
                   'block gas used any uint64 (meter kind as BaseApp.getBlockGasMeter)', 'no loops: no unwinding bound needed'],
        'outside': ['base fees >= 2^252 (the next base fee, up to 9/8 of it, no longer fits sdkmath.Int)', 'module-manager ordering of end blockers', 'London fork not active (config is the default chain config, all forks at block 0)'],
        'assumptions': COMMON_ASSUMPTIONS,
    },
}
