//go:build verif

package server

import (
	"context"
	"errors"

	abci "github.com/cometbft/cometbft/abci/types"
	cmtrpcclient "github.com/cometbft/cometbft/rpc/client"
	coretypes "github.com/cometbft/cometbft/rpc/core/types"
	cmttypes "github.com/cometbft/cometbft/types"
	sdkdb "github.com/cosmos/cosmos-db"

	"github.com/EscanBE/evermint/v12/zzverif/hidx"
	"github.com/EscanBE/evermint/v12/zzverif/model"
	"github.com/EscanBE/evermint/v12/zzverif/verif"
)

// verifChain is the CometBFT node the indexer service talks to: the harness chain with its block results and a
// new-block-header subscription.
type verifChain struct {
	cmtrpcclient.Client
	latest  int64
	blocks  map[int64]*cmttypes.Block
	results map[int64][]*abci.ExecTxResult
	headers chan coretypes.ResultEvent
}

func (c *verifChain) Status(context.Context) (*coretypes.ResultStatus, error) {
	return &coretypes.ResultStatus{SyncInfo: coretypes.SyncInfo{LatestBlockHeight: c.latest, EarliestBlockHeight: 1}}, nil
}

func (c *verifChain) Subscribe(context.Context, string, string, ...int) (<-chan coretypes.ResultEvent, error) {
	return c.headers, nil
}

func (c *verifChain) Unsubscribe(context.Context, string, string) error { return nil }

func (c *verifChain) Block(_ context.Context, h *int64) (*coretypes.ResultBlock, error) {
	b, ok := c.blocks[*h]
	if !ok {
		return nil, errors.New("no such block")
	}
	return &coretypes.ResultBlock{Block: b}, nil
}

func (c *verifChain) BlockResults(_ context.Context, h *int64) (*coretypes.ResultBlockResults, error) {
	r, ok := c.results[*h]
	if !ok {
		return nil, errors.New("no such block results")
	}
	return &coretypes.ResultBlockResults{Height: *h, TxsResults: r}, nil
}

// produce appends block h to the chain and announces its header to the subscriber (if one is listening).
func (c *verifChain) produce(h int64, blk *cmttypes.Block, res []*abci.ExecTxResult, announce bool) {
	c.blocks[h], c.results[h] = blk, res
	c.latest = h
	if announce {
		c.headers <- coretypes.ResultEvent{Data: cmttypes.EventDataNewBlockHeader{Header: cmttypes.Header{Height: h}}}
	}
}

// H_C14_3_ServiceRestart: the real EVMIndexerService.OnStart (its header goroutine, its catch-up loop, the real
// KVIndexer underneath) against a harness chain. An uninterrupted service that sees blocks 6, 7, 8 arrive is
// compared with a service that is killed after indexing the first k of them (k in 0..2; killing it inside a
// block's batch leaves that batch unwritten, which is the same as killing it before the block) and restarted on
// the same database when the chain has reached block 8: both databases must be identical. Blocks have 1-2
// transactions of the 6 kinds of the indexer harness.
func H_C14_3_ServiceRestart() {
	verif.Schedule(0)
	model.ResetTxs()
	cfg := hidx.NewTxConfig()
	type blk struct {
		b *cmttypes.Block
		r []*abci.ExecTxResult
		n int
	}
	var blocks []blk
	for h := int64(6); h <= 8; h++ {
		b, r, n := hidx.MkBlock(cfg, h, 1, "b"+string(rune('0'+h)))
		blocks = append(blocks, blk{b, r, n})
	}
	run := func(db sdkdb.DB, startAt int64, fromIdx, toIdx int, chain *verifChain) *EVMIndexerService {
		kv := hidx.NewIndexerOn(cfg, db)
		svc := NewEVMIndexerService(kv, chain)
		chain.headers = make(chan coretypes.ResultEvent)
		go func() { _ = svc.Start() }() // as server/start.go does
		verif.Quiesce()
		for i := fromIdx; i < toIdx; i++ {
			chain.produce(int64(6+i), blocks[i].b, blocks[i].r, true)
			verif.Quiesce()
		}
		return svc
	}
	newChain := func() *verifChain {
		return &verifChain{latest: 5, blocks: map[int64]*cmttypes.Block{}, results: map[int64][]*abci.ExecTxResult{}}
	}
	// uninterrupted
	_, db1 := hidx.NewIndexer(cfg)
	c1 := newChain()
	s1 := run(db1, 5, 0, 3, c1)
	_ = s1.Stop()
	verif.Quiesce()
	k1, v1 := hidx.Dump(db1)
	// killed after k blocks, restarted when the chain is at block 8
	k := verif.Choice("blocksIndexedBeforeTheCrash", 3)
	_, db2 := hidx.NewIndexer(cfg)
	c2 := newChain()
	s2 := run(db2, 5, 0, k, c2)
	_ = s2.Stop() // the process dies
	verif.Quiesce()
	for i := k; i < 3; i++ { // the chain goes on while the service is down
		c2.produce(int64(6+i), blocks[i].b, blocks[i].r, false)
	}
	s3 := run(db2, 8, 3, 3, c2)
	_ = s3.Stop()
	verif.Quiesce()
	k2, v2 := hidx.Dump(db2)
	indexedBefore := 0
	for i := 0; i < k; i++ {
		indexedBefore += blocks[i].n
	}
	verif.AssertKF("restart-converges-to-the-uninterrupted-index", hidx.SameDump(k1, v1, k2, v2), "C14-F16", indexedBefore == 0)
	if indexedBefore > 0 {
		verif.Reach("restart-with-non-empty-index")
	}
	verif.Reach("compared")
}
