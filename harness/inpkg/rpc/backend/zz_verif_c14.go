//go:build verif

package backend

import (
	"context"
	"errors"
	"math/big"

	sdkmath "cosmossdk.io/math"
	abci "github.com/cometbft/cometbft/abci/types"
	cmtbytes "github.com/cometbft/cometbft/libs/bytes"
	cmtrpcclient "github.com/cometbft/cometbft/rpc/client"
	cmtrpctypes "github.com/cometbft/cometbft/rpc/core/types"
	cmttypes "github.com/cometbft/cometbft/types"
	"github.com/cosmos/cosmos-sdk/client"
	"github.com/ethereum/go-ethereum/common"
	"github.com/ethereum/go-ethereum/common/hexutil"
	"google.golang.org/grpc"

	rpctypes "github.com/EscanBE/evermint/v12/rpc/types"
	evmtypes "github.com/EscanBE/evermint/v12/x/evm/types"
	"github.com/EscanBE/evermint/v12/zzverif/hidx"
	"github.com/EscanBE/evermint/v12/zzverif/model"
	"github.com/EscanBE/evermint/v12/zzverif/verif"
)

// verifNode is the CometBFT RPC client of the harness: it serves the one harness block and its results (every
// other method of the interface is the nil embedded one and is never reached).
type verifNode struct {
	cmtrpcclient.Client
	hash    cmtbytes.HexBytes
	blk     *cmttypes.Block
	results []*abci.ExecTxResult
}

func (n verifNode) Block(_ context.Context, height *int64) (*cmtrpctypes.ResultBlock, error) {
	if height == nil || *height != n.blk.Height {
		return nil, errors.New("verifNode: no such block")
	}
	return &cmtrpctypes.ResultBlock{BlockID: cmttypes.BlockID{Hash: n.hash}, Block: n.blk}, nil
}

func (n verifNode) BlockByHash(_ context.Context, hash []byte) (*cmtrpctypes.ResultBlock, error) {
	if string(hash) != string(n.hash) {
		return nil, errors.New("verifNode: no such block")
	}
	return &cmtrpctypes.ResultBlock{BlockID: cmttypes.BlockID{Hash: n.hash}, Block: n.blk}, nil
}

func (n verifNode) BlockResults(_ context.Context, height *int64) (*cmtrpctypes.ResultBlockResults, error) {
	if height == nil || *height != n.blk.Height {
		return nil, errors.New("verifNode: no such block results")
	}
	return &cmtrpctypes.ResultBlockResults{Height: n.blk.Height, TxsResults: n.results}, nil
}

// verifEvmQuery answers the one gRPC query the receipt / transaction views make (base fee of the block).
type verifEvmQuery struct{ evmtypes.QueryClient }

func (verifEvmQuery) BaseFee(context.Context, *evmtypes.QueryBaseFeeRequest, ...grpc.CallOption) (*evmtypes.QueryBaseFeeResponse, error) {
	return &evmtypes.QueryBaseFeeResponse{BaseFee: sdkmath.NewInt(1)}, nil
}

// H_C14_2_ReceiptView: the real Backend.GetTransactionReceipt / GetTransactionByHash /
// GetTransactionByBlockNumberAndIndex over the real KVIndexer for a symbolic block of up to 3 transactions
// (undecodable, Cosmos, Ethereum dropped before the ante handler, Ethereum discarded after it, Ethereum with VM
// error, Ethereum success with 0-2 logs; symbolic gas limits and gas-used figures), the consensus results carrying
// the events the application emits (tx_receipt built by the real GetSdkEventForReceipt): every view reports the
// consensus transaction index, status, gas used, cumulative gas (running sum; the gas limit for a discarded
// execution), sender, block and block-wide log indices; dropped transactions have no receipt.
func H_C14_2_ReceiptView() {
	model.ResetTxs()
	cfg := hidx.NewTxConfig()
	kv, _ := hidx.NewIndexer(cfg)
	n := 1 + verif.Choice("nTxs", 3)
	const height = 7
	blk, results, want, dropped := hidx.MkViewBlock(cfg, height, n)
	verif.Assert("index-block-succeeds", kv.IndexBlock(blk, results) == nil)
	blockHash := common.BytesToHash([]byte{0xb1, 0x0c, height})
	node := verifNode{hash: blockHash.Bytes(), blk: blk, results: results}
	b := &Backend{
		ctx:         context.Background(),
		clientCtx:   client.Context{}.WithTxConfig(cfg).WithClient(node),
		queryClient: &rpctypes.QueryClient{QueryClient: verifEvmQuery{}},
		logger:      model.NopLogger{},
		chainID:     big.NewInt(hidx.ViewChainID),
		indexer:     kv,
	}
	for _, w := range want {
		rc, err := b.GetTransactionReceipt(w.Hash)
		verif.Assert("receipt-found", err == nil && rc != nil)
		if err != nil || rc == nil {
			return
		}
		verif.Assert("receipt-tx-hash", rc.TransactionHash == w.Hash)
		verif.Assert("receipt-tx-index-is-consensus-index", uint64(rc.TransactionIndex) == uint64(w.EthIdx))
		verif.Assert("receipt-block", uint64(rc.BlockNumber) == height && rc.BlockHash == blockHash)
		verif.Assert("receipt-status", uint64(rc.Status) == w.Status)
		verif.Assert("receipt-gas-used", uint64(rc.GasUsed) == w.GasUsed)
		verif.Assert("receipt-cumulative-gas-is-consensus-running-sum", uint64(rc.CumulativeGasUsed) == w.Cumulative)
		verif.Assert("receipt-sender", rc.From == w.From)
		verif.Assert("receipt-log-count", len(rc.Logs) == w.NLogs)
		for k, l := range rc.Logs {
			verif.Assert("log-index-is-block-wide", l.Index == w.FirstLog+uint(k))
			verif.Assert("log-tx-index-and-hash", l.TxIndex == uint(w.EthIdx) && l.TxHash == w.Hash && l.BlockHash == blockHash && l.BlockNumber == height)
		}
		if !w.HasReceipt {
			verif.Reach("synthetic-receipt-of-discarded-tx")
			if w.EthIdx > 0 && w.BlockPos > w.EthIdx {
				verif.Reach("synthetic-receipt-after-earlier-eth-tx-and-non-eth-tx")
			}
		}
		tx, err := b.GetTransactionByHash(w.Hash)
		verif.Assert("tx-found-by-hash", err == nil && tx != nil)
		if err != nil || tx == nil {
			return
		}
		verif.Assert("tx-view-index-and-block", tx.TransactionIndex != nil && uint64(*tx.TransactionIndex) == uint64(w.EthIdx) &&
			tx.BlockNumber != nil && (*big.Int)(tx.BlockNumber).Cmp(big.NewInt(height)) == 0 && tx.BlockHash != nil && *tx.BlockHash == blockHash)
		verif.Assert("tx-view-hash-sender-gas", tx.Hash == w.Hash && tx.From == w.From && uint64(tx.Gas) == w.GasLimit)
		tx2, err := b.GetTransactionByBlockNumberAndIndex(rpctypes.BlockNumber(height), hexutil.Uint(w.EthIdx))
		verif.Assert("tx-found-by-block-and-index", err == nil && tx2 != nil)
		if err == nil && tx2 != nil {
			// (the by-index view derives the block hash from the header - CometBFT's merkle hashing, not encoded;
			// the harness block has no commit, so the location fields of this view are left out)
			verif.Assert("lookup-by-index-agrees-with-lookup-by-hash", tx2.Hash == w.Hash && tx2.From == w.From && uint64(tx2.Gas) == w.GasLimit)
		}
		verif.Reach("views-compared")
	}
	// block-level views: number of Ethereum transactions and the logs of the block (eth_getLogs / eth_getFilterLogs)
	cnt := b.GetBlockTransactionCountByNumber(rpctypes.BlockNumber(height))
	verif.Assert("block-transaction-count-is-the-number-of-admitted-eth-txs", cnt != nil && int(*cnt) == len(want))
	blockLogs, errLogs := b.GetLogsByHeight(&blk.Height)
	verif.Assert("block-logs-found", errLogs == nil)
	if errLogs == nil {
		var withReceipt []hidx.ViewTx
		for _, w := range want {
			if w.HasReceipt {
				withReceipt = append(withReceipt, w)
			}
		}
		verif.Assert("one-log-list-per-executed-eth-tx", len(blockLogs) == len(withReceipt))
		if len(blockLogs) == len(withReceipt) {
			for i, w := range withReceipt {
				verif.Assert("block-log-view-count", len(blockLogs[i]) == w.NLogs)
				for k, l := range blockLogs[i] {
					verif.Assert("block-log-view-indices", l.Index == w.FirstLog+uint(k) && l.TxIndex == uint(w.EthIdx) && l.TxHash == w.Hash && l.BlockNumber == height)
				}
			}
		}
	}
	for _, h := range dropped {
		rc, err := b.GetTransactionReceipt(h)
		verif.Assert("dropped-tx-has-no-receipt", err == nil && rc == nil)
	}
	out, err := b.GetTransactionByBlockNumberAndIndex(rpctypes.BlockNumber(height), hexutil.Uint(len(want)))
	verif.Assert("out-of-range-index-gives-nothing", err == nil && out == nil)
}
