//go:build verif

package filters

import (
	cmttypes "github.com/cometbft/cometbft/types"
	"github.com/cosmos/cosmos-sdk/client"
	"github.com/ethereum/go-ethereum/rpc"

	coretypes "github.com/cometbft/cometbft/rpc/core/types"
	cmtjrpcclient "github.com/cometbft/cometbft/rpc/jsonrpc/client"
	cmtjrpctypes "github.com/cometbft/cometbft/rpc/jsonrpc/types"

	"github.com/EscanBE/evermint/v12/zzverif/model"
	"github.com/EscanBE/evermint/v12/zzverif/verif"
)

// verifConsumer has the shape of the consumer goroutines of api.go (NewBlockFilter): it drains the event
// channel until it is closed or the subscription's error channel fires, then cancels the bus subscription.
type verifConsumer struct {
	got      int
	finished bool
}

func (c *verifConsumer) run(sub *Subscription, cancel func()) {
	defer func() { c.finished = true }()
	defer cancel()
	for {
		select {
		case _, ok := <-sub.eventCh:
			if !ok {
				return
			}
			c.got++
		case <-sub.Err():
			return
		}
	}
}

// H_C20_6_EventSystem: the real filter event system (NewEventSystem with its eventLoop and consumeEvents
// goroutines, SubscribeNewHeads, Subscription.Unsubscribe, the event bus underneath) under the engine's scheduler:
// a first new-heads subscription with its consumer, a CometBFT event delivered through the websocket response
// channel, the subscription uninstalled (last of its kind: topic shut down) and a second subscription of the same
// kind installed right after, all concurrently: no goroutine panics, nothing deadlocks (everything ends blocked
// in its idle wait), the first consumer terminates and no consumer sees more events than were delivered.
func H_C20_6_EventSystem() { eventSystem(1, true, 3) }

// H_C20_6b_EventSystemDeeper (thorough tier): two events, delay bound 4.
func H_C20_6b_EventSystemDeeper() { eventSystem(2, true, 4) }

// eventSystem: nEvents CometBFT events; optionally a second subscription of the same kind made while the first is
// being uninstalled (it either joins the topic, is installed afresh, or is refused with an error); schedules
// within the given delay bound.
func eventSystem(nEvents int, second bool, delays int) {
	verif.Schedule(delays)
	ws := &cmtjrpcclient.WSClient{ResponsesCh: make(chan cmtjrpctypes.RPCResponse)}
	es := NewEventSystem(model.NopLogger{}, ws)
	sub1, cancel1, err := es.SubscribeNewHeads()
	verif.Assert("first-subscription-installed", err == nil && sub1 != nil)
	if err != nil {
		return
	}
	c1 := &verifConsumer{}
	go c1.run(sub1, cancel1)
	go func() {
		for k := 0; k < nEvents; k++ {
			ev := coretypes.ResultEvent{Query: headerEvents}
			ws.ResponsesCh <- cmtjrpctypes.RPCResponse{Result: verif.EncodeAny(&ev)}
		}
	}()
	sub1.Unsubscribe(es)
	var c2 *verifConsumer
	if second {
		sub2, cancel2, err2 := es.SubscribeNewHeads()
		if err2 != nil {
			verif.Reach("second-subscription-refused")
		}
		if err2 == nil {
			c2 = &verifConsumer{}
			go c2.run(sub2, cancel2)
		}
	}
	verif.Quiesce()
	verif.Assert("uninstalled-consumer-terminates", c1.finished)
	verif.Assert("no-more-deliveries-than-events", c1.got <= nEvents)
	if c1.got == nEvents {
		verif.Reach("all-events-delivered")
	}
	if c2 != nil {
		// (a second subscription that found the topic already registered is not entered into the event system's
		// index, so uninstalling the first one shuts the shared topic down and cuts the second off: a functional
		// defect of the filter API, but neither a crash, a deadlock nor an inconsistent state - not asserted here)
		verif.Assert("second-consumer-sound", c2.got <= nEvents)
		verif.Reach("second-subscription-made")
	}
	verif.Reach("quiesced")
}

// verifBackend is the backend of the filter API: only the filter cap is asked for block filters.
type verifBackend struct{ Backend }

func (verifBackend) RPCFilterCap() int32 { return 200 }

// H_C20_7_FilterAPI: the real PublicFilterAPI (NewPublicAPI with its timeout loop, the event system and event bus
// underneath, the real consumer goroutines of NewBlockFilter) driven the way concurrent JSON-RPC requests drive
// it: eth_newBlockFilter twice, a block header event arriving from CometBFT, eth_getFilterChanges and
// eth_uninstallFilter of the first filter, each request in its own goroutine: within the delay bound no
// goroutine panics, nothing deadlocks, an uninstalled filter is gone, polling an unknown filter is an error.
func H_C20_7_FilterAPI() { filterAPI(2) }

// H_C20_7b_FilterAPIDeeper (thorough tier): delay bound 3 (bound 4 is 4.6 million schedules, 40 minutes: run once, clean).
func H_C20_7b_FilterAPIDeeper() { filterAPI(3) }

func filterAPI(delays int) {
	verif.Schedule(delays)
	ws := &cmtjrpcclient.WSClient{ResponsesCh: make(chan cmtjrpctypes.RPCResponse)}
	api := NewPublicAPI(model.NopLogger{}, clientContext(), ws, verifBackend{})
	id1 := api.NewBlockFilter()
	var id2 rpc.ID
	done := 0
	go func() { id2 = api.NewBlockFilter(); done++ }()
	go func() {
		ev := coretypes.ResultEvent{Query: headerEvents, Data: cmttypes.EventDataNewBlockHeader{}}
		ws.ResponsesCh <- cmtjrpctypes.RPCResponse{Result: verif.EncodeAny(&ev)}
		done++
	}()
	go func() { _, _ = api.GetFilterChanges(id1); done++ }()
	removed := false
	go func() { removed = api.UninstallFilter(id1); done++ }()
	verif.Quiesce()
	verif.Assert("all-requests-returned", done == 4)
	verif.Assert("uninstall-of-an-installed-filter-succeeds", removed)
	_, err := api.GetFilterChanges(id1)
	verif.Assert("uninstalled-filter-is-gone", err != nil)
	verif.Assert("second-uninstall-reports-false", !api.UninstallFilter(id1))
	_ = id2
	verif.Reach("quiesced")
}

func clientContext() client.Context { return client.Context{} }
