//go:build verif

package pubsub

import (
	cmtrpctypes "github.com/cometbft/cometbft/rpc/core/types"

	"github.com/EscanBE/evermint/v12/zzverif/verif"
)

// H_C20_4_EventBus: the real event bus (AddTopic / Subscribe / unsubscribe / RemoveTopic / publishTopic /
// publishAllSubscribers / closeAllSubscribers) under the engine's scheduler: a producer delivers 0-2 events into
// the topic source and closes it (what EventSystem.eventLoop does when the last filter of a kind is removed), the
// bus' own publisher goroutine fans them out, subscriber A consumes until its channel is closed and then
// unsubscribes (the shape of every consumer goroutine in filters/api.go: `defer cancelSubs()`), subscriber B
// unsubscribes early, and the main goroutine optionally removes the topic or subscribes again - in every
// schedule within the delay bound (3 delays w.r.t. the round-robin non-preemptive scheduler; thorough: 4 and 5): no goroutine panics (double close, send on a
// closed channel, unlock of an unlocked mutex), nothing deadlocks, subscriber A always terminates, no more events
// are delivered than were published, and the topic is gone once its source is closed.
func H_C20_4_EventBus() { eventBus(3, true, 3) }

// H_C20_4b_EventBusTwoSubscribers (thorough tier): the same with delay bound 4.
func H_C20_4b_EventBusTwoSubscribers() { eventBus(3, true, 4) }

// H_C20_4c_EventBusTwoPreemptions (thorough tier): one subscriber, 0-1 events, delay bound 5.
func H_C20_4c_EventBusTwoPreemptions() { eventBus(2, false, 5) }

func eventBus(eventChoices int, withB bool, preemptions int) {
	verif.Schedule(preemptions)
	bus := NewEventBus()
	src := make(chan cmtrpctypes.ResultEvent)
	verif.Assert("add-topic-succeeds", bus.AddTopic("heads", src) == nil)
	verif.Assert("duplicate-topic-refused", bus.AddTopic("heads", src) != nil)
	_, _, errMissing := bus.Subscribe("missing")
	verif.Assert("subscribe-to-unknown-topic-is-an-error", errMissing != nil)

	chA, unsubA, errA := bus.Subscribe("heads")
	chB, unsubB, errB := bus.Subscribe("heads")
	verif.Assert("subscribe-succeeds", errA == nil && errB == nil)
	n := verif.Choice("events", eventChoices)
	gotA, gotB := 0, 0
	finishedA, finishedB, producerDone := false, false, false
	go func() { // consumer A
		defer func() { finishedA = true }()
		defer unsubA()
		for range chA {
			gotA++
		}
	}()
	earlyB := true
	if withB {
		earlyB = verif.Bool("bUnsubscribesBeforeReceiving")
	} else {
		unsubB()
		finishedB = true
	}
	if withB {
		go func() { // consumer B: leaves early
			defer func() { finishedB = true }()
			defer unsubB()
			if earlyB {
				return
			}
			if _, ok := <-chB; ok {
				gotB++
			}
		}()
	}
	go func() { // producer
		for k := 0; k < n; k++ {
			src <- cmtrpctypes.ResultEvent{Query: "q"}
		}
		close(src)
		producerDone = true
	}()
	switch verif.Choice("mainAction", 3) {
	case 1:
		bus.RemoveTopic("heads")
	case 2:
		if chC, unsubC, err := bus.Subscribe("heads"); err == nil {
			unsubC()
			unsubC() // idempotent
			_ = chC
		}
	}
	verif.Quiesce()
	verif.Assert("producer-finished", producerDone)
	verif.Assert("consumer-A-terminates-after-topic-shutdown", finishedA)
	verif.Assert("no-more-deliveries-than-events", gotA <= n && gotB <= n && gotB <= 1)
	if earlyB {
		verif.Assert("early-leaver-finished", finishedB)
	}
	verif.Assert("topic-gone-after-source-closed", len(bus.Topics()) == 0)
	verif.Reach("quiesced")
	if gotA == n && n > 0 {
		verif.Reach("all-events-delivered")
	}
}

// H_C20_5_TopicReuse: the sequence EventSystem.eventLoop performs when the last filter of a kind is removed and a
// new one of the same kind is installed right after: RemoveTopic(name), close(old source), AddTopic(name, new
// source), Subscribe(name) - while the publisher goroutine of the OLD source is still on its way to its clean-up
// (closeAllSubscribers(name), delete(topics, name)). A topic whose source is open must stay registered and must
// not have its subscribers closed.
func H_C20_5_TopicReuse() {
	verif.Schedule(4)
	bus := NewEventBus()
	src1 := make(chan cmtrpctypes.ResultEvent)
	verif.Assert("add-topic-succeeds", bus.AddTopic("heads", src1) == nil)
	// the last filter of this kind goes away
	bus.RemoveTopic("heads")
	close(src1)
	// a new filter of the same kind is installed
	src2 := make(chan cmtrpctypes.ResultEvent)
	verif.Assert("re-add-topic-succeeds", bus.AddTopic("heads", src2) == nil)
	chB, unsubB, err := bus.Subscribe("heads")
	verif.Assert("subscribe-to-re-added-topic-succeeds", err == nil)
	closedB := false
	gotB := 0
	go func() {
		for range chB {
			gotB++
		}
		closedB = true
	}()
	verif.Quiesce()
	// the new source is still open: nothing may have shut the new topic down
	stillRegistered := false
	for _, t := range bus.Topics() {
		if t == "heads" {
			stillRegistered = true
		}
	}
	verif.Assert("live-topic-keeps-its-subscribers", !closedB)
	verif.Assert("live-topic-stays-registered", stillRegistered)
	_ = unsubB
	verif.Reach("re-added")
}
