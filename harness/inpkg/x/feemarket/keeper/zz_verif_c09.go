//go:build verif

package keeper

import (
	"math/big"

	sdkmath "cosmossdk.io/math"
	storetypes "cosmossdk.io/store/types"
	cmtproto "github.com/cometbft/cometbft/proto/tendermint/types"
	sdk "github.com/cosmos/cosmos-sdk/types"
	ethparams "github.com/ethereum/go-ethereum/params"

	evmtypes "github.com/EscanBE/evermint/v12/x/evm/types"
	feemarkettypes "github.com/EscanBE/evermint/v12/x/feemarket/types"
	"github.com/EscanBE/evermint/v12/zzverif/model"
	"github.com/EscanBE/evermint/v12/zzverif/verif"
)

type vEvmKeeper struct{ cfg *ethparams.ChainConfig }

func (k vEvmKeeper) GetChainConfig(sdk.Context) *ethparams.ChainConfig { return k.cfg }

var (
	vStoreKey  = storetypes.NewKVStoreKey(feemarkettypes.StoreKey)
	vTStoreKey = storetypes.NewTransientStoreKey(feemarkettypes.TransientKey)
)

type vEnv struct {
	ms  *model.MS
	ctx sdk.Context
	k   Keeper
}

// vNewEnv builds a fee-market keeper over the model multistore with the given
// params already stored, the consensus max-gas, and a block gas meter of the
// kind BaseApp would install for that max-gas (baseapp.getBlockGasMeter:
// limited iff MaxGas > 0) with `used` gas consumed.
func vNewEnv(baseFee *big.Int, minGasPriceRaw *big.Int, maxGas int64, hasBlockParams bool, used uint64) *vEnv {
	ms := model.NewMS(vStoreKey, vTStoreKey)
	ctx := sdk.NewContext(ms, cmtproto.Header{Height: 10}, false, model.NopLogger{})
	k := Keeper{
		cdc:          model.Codec{},
		storeKey:     vStoreKey,
		transientKey: vTStoreKey,
		evmKeeper:    vEvmKeeper{cfg: evmtypes.DefaultChainConfig().EthereumConfig(big.NewInt(9000))},
	}
	params := feemarkettypes.Params{
		BaseFee:     sdkmath.NewIntFromBigInt(baseFee),
		MinGasPrice: sdkmath.LegacyNewDecFromBigIntWithPrec(minGasPriceRaw, sdkmath.LegacyPrecision),
	}
	if err := k.SetParams(ctx, params); err != nil {
		panic(err)
	}
	cp := cmtproto.ConsensusParams{}
	if hasBlockParams {
		cp.Block = &cmtproto.BlockParams{MaxBytes: 1 << 20, MaxGas: maxGas}
	}
	ctx = ctx.WithConsensusParams(cp)
	var meter storetypes.GasMeter
	if hasBlockParams && maxGas > 0 {
		meter = storetypes.NewGasMeter(uint64(maxGas))
	} else {
		meter = storetypes.NewInfiniteGasMeter()
	}
	verif.Try(func() { meter.ConsumeGas(used, "block") }) // may go past the limit: consumed is still recorded
	ctx = ctx.WithBlockGasMeter(meter)
	return &vEnv{ms: ms, ctx: ctx, k: k}
}

// specNextBaseFee is the EIP-1559 rule as stated by property C09, written
// independently of the code under test. limit is the block gas limit.
func specNextBaseFee(b *big.Int, used uint64, limit uint64, minGasPriceRaw *big.Int) *big.Int {
	target := limit / 2
	next := new(big.Int).Set(b)
	if used > target {
		d := new(big.Int).SetUint64(used - target)
		d.Mul(d, b)
		d.Div(d, new(big.Int).SetUint64(target))
		d.Div(d, big.NewInt(8))
		if d.Cmp(big.NewInt(1)) < 0 {
			d = big.NewInt(1)
		}
		next.Add(b, d)
	} else if used < target {
		d := new(big.Int).SetUint64(target - used)
		d.Mul(d, b)
		d.Div(d, new(big.Int).SetUint64(target))
		d.Div(d, big.NewInt(8))
		next.Sub(b, d)
		if next.Sign() < 0 {
			next = big.NewInt(0)
		}
	}
	floor := new(big.Int).Quo(minGasPriceRaw, new(big.Int).Exp(big.NewInt(10), big.NewInt(18), nil))
	if next.Cmp(floor) < 0 {
		return floor
	}
	return next
}

var vTwo256 = new(big.Int).Lsh(big.NewInt(1), 256)

// vMaxBaseFee bounds the base fee: above 2^252 the next base fee (up to 9/8 of it) no longer fits sdkmath.Int.
var vMaxBaseFee = new(big.Int).Lsh(big.NewInt(1), 252)

// H_C09_1: CalculateBaseFee equals the EIP-1559 rule, never panics, is never
// negative and never below the integer part of the minimum gas price, for every
// base fee in [0,2^256), every gas used, every valid MaxGas (>= -1, incl. 0) and
// every non-negative minimum gas price.
func H_C09_1_CalcBaseFee() {
	b := verif.Big("baseFee")
	verif.Assume(b.Sign() >= 0 && b.Cmp(vMaxBaseFee) < 0)
	minGP := verif.Big("minGasPriceRaw") // 18-decimals fixed point
	verif.Assume(minGP.Sign() >= 0 && minGP.Cmp(vTwo256) < 0)
	maxGas := verif.Int64("maxGas")
	verif.Assume(maxGas >= -1)
	hasBlock := verif.Bool("hasBlockParams")
	used := verif.Uint64("gasUsed")

	env := vNewEnv(b, minGP, maxGas, hasBlock, used)
	usedToLimit := env.ctx.BlockGasMeter().GasConsumedToLimit()

	var got sdkmath.Int
	panicked := verif.Try(func() { got = env.k.CalculateBaseFee(env.ctx) })
	verif.Assert("no-panic", !panicked)
	if panicked {
		return
	}
	g := got.BigInt()
	verif.Assert("non-negative", g.Sign() >= 0)
	floor := new(big.Int).Quo(minGP, new(big.Int).Exp(big.NewInt(10), big.NewInt(18), nil))
	verif.Assert("at-least-min-gas-price", g.Cmp(floor) >= 0)

	// value: the block gas limit is MaxGas when it is positive, unlimited (max uint64) for -1 / absent
	// block params. For MaxGas = 0 the property only demands that the computation does not fail.
	var limit uint64
	switch {
	case hasBlock && maxGas > 0:
		limit = uint64(maxGas)
	case hasBlock && maxGas == 0:
		return
	default:
		limit = ^uint64(0)
	}
	if limit/2 == 0 {
		return // gas target 0 (MaxGas = 1): the EIP-1559 quotient is undefined; only "does not fail" is demanded
	}
	want := specNextBaseFee(b, usedToLimit, limit, minGP)
	verif.Assert("eip1559-value", g.Cmp(want) == 0)
	target := limit / 2
	if usedToLimit == target {
		verif.Assert("unchanged-at-target", g.Cmp(b) == 0 || g.Cmp(floor) == 0)
	}
	if usedToLimit > target {
		verif.Assert("increases-above-target", g.Cmp(b) > 0)
	}
}

// H_C09_3: the end blocker stores exactly the computed value and emits it.
func H_C09_3_EndBlock() {
	b := verif.Big("baseFee")
	verif.Assume(b.Sign() >= 0 && b.Cmp(vMaxBaseFee) < 0)
	minGP := verif.Big("minGasPriceRaw")
	verif.Assume(minGP.Sign() >= 0 && minGP.Cmp(vTwo256) < 0)
	maxGas := verif.Int64("maxGas")
	verif.Assume(maxGas >= -1)
	used := verif.Uint64("gasUsed")
	env := vNewEnv(b, minGP, maxGas, true, used)

	var want sdkmath.Int
	p1 := verif.Try(func() { want = env.k.CalculateBaseFee(env.ctx) })
	p2 := verif.Try(func() { env.k.EndBlock(env.ctx) })
	verif.Assert("endblock-no-panic", !p2)
	if p1 || p2 {
		return
	}
	stored := env.k.GetParams(env.ctx)
	verif.Assert("stored-next-base-fee", stored.BaseFee.BigInt().Cmp(want.BigInt()) == 0)
	verif.Assert("min-gas-price-kept", stored.MinGasPrice.BigInt().Cmp(new(big.Int).Set(minGP)) == 0)
	verif.Assert("base-fee-getter", env.k.GetBaseFee(env.ctx).BigInt().Cmp(want.BigInt()) == 0)
}
