//go:build verif

package vm

import (
	"github.com/ethereum/go-ethereum/common"

	"github.com/EscanBE/evermint/v12/zzverif/verif"
)

// H_C02_3_AccessListDifferential: evermint's AccessList2 against go-ethereum's own accessList (kept verbatim in
// state_db_access_list_geth.go): sequences of 4 operations (AddAddress, AddSlot, and "copy, then continue on the
// copy while the original receives a stray write" - the snapshot discipline) over 2 symbolic addresses and 2
// symbolic slots (aliasing allowed); every return value and every membership query must agree, and a copy must be
// independent of its original.
func H_C02_3_AccessListDifferential() { accessListDifferential(3) }

// thorough tier: 4 operations
func H_C02_3b_AccessListDifferential4() { accessListDifferential(4) }

func accessListDifferential(steps int) {
	var addrs [2]common.Address
	verif.Fill("a0", addrs[0][:])
	verif.Fill("a1", addrs[1][:])
	var slots [2]common.Hash
	slots[0] = common.BytesToHash([]byte{verif.Uint8("s0")})
	slots[1] = common.BytesToHash([]byte{verif.Uint8("s1")})
	mine, geth := newAccessList2(), newAccessList()
	for step := 0; step < steps; step++ {
		pfx := "op" + string(rune('0'+step))
		a := addrs[verif.Choice(pfx+".addr", 2)]
		s := slots[verif.Choice(pfx+".slot", 2)]
		switch verif.Choice(pfx, 3) {
		case 0:
			verif.Assert("add-address-returns-as-geth", mine.AddAddress(a) == geth.AddAddress(a))
		case 1:
			m1, m2 := mine.AddSlot(a, s)
			g1, g2 := geth.AddSlot(a, s)
			verif.Assert("add-slot-returns-as-geth", verif.And(m1 == g1, m2 == g2))
		case 2:
			// snapshot: continue on copies; the originals (the snapshot's backup) get a stray write that must not show
			m2, g2 := mine.Copy(), geth.Copy()
			mine.AddSlot(a, s)
			geth.AddSlot(a, s)
			mine, geth = m2, g2
		}
		for _, pa := range addrs {
			verif.Assert("contains-address-as-geth", mine.ContainsAddress(pa) == geth.ContainsAddress(pa))
			for _, ps := range slots {
				ma, ms := mine.Contains(pa, ps)
				ga, gs := geth.Contains(pa, ps)
				verif.Assert("contains-slot-as-geth", verif.And(ma == ga, ms == gs))
			}
		}
	}
}
