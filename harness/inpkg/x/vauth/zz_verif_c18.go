//go:build verif

package vauth

import (
	sdk "github.com/cosmos/cosmos-sdk/types"
	"github.com/ethereum/go-ethereum/common"

	vauthtypes "github.com/EscanBE/evermint/v12/x/vauth/types"
	"github.com/EscanBE/evermint/v12/zzverif/env"
	"github.com/EscanBE/evermint/v12/zzverif/model"
	"github.com/EscanBE/evermint/v12/zzverif/verif"
)

// H_C18_4_VAuth: stored ownership proofs round-trip through the module's ExportGenesis / InitGenesis.
func H_C18_4_VAuth() {
	e1 := env.New()
	addr := common.HexToAddress("0x1100000000000000000000000000000000000001")
	acc := sdk.AccAddress(addr.Bytes())
	hasProof := verif.Bool("hasProof")
	if hasProof {
		// written directly (the submission path with its signature check is the subject of C16 harnesses)
		e1.Ctx.KVStore(env.VAuthKey).Set(vauthtypes.KeyProofExternalOwnedAccountByAddress(acc), []byte{1})
	}
	am1 := AppModule{keeper: e1.VK}
	cdc := model.JSONCodecFor()
	raw := am1.ExportGenesis(e1.Ctx, cdc)
	e2 := env.New()
	am2 := AppModule{keeper: e2.VK}
	panicked := verif.Try(func() { am2.InitGenesis(e2.Ctx, cdc, raw) })
	verif.Assert("import-of-own-export-succeeds", !panicked)
	// known finding C18-F2: the module exports the default genesis and ignores its genesis input
	verif.AssertKF("proofs-reproduced", e2.VK.HasProofExternalOwnedAccount(e2.Ctx, acc) == hasProof, "C18-F2", hasProof)
	verif.Reach("checked")
}
