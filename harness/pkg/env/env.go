//go:build verif

// Package env builds the environment the StateDB / keeper harnesses run in:
// the REAL x/evm keeper over the model multistore, with the account and bank
// keepers being the models (symbolic engine) or the real SDK keepers (native
// replay).
package env

import (
	"math/big"
	"time"

	sdkmath "cosmossdk.io/math"
	storetypes "cosmossdk.io/store/types"
	cmtproto "github.com/cometbft/cometbft/proto/tendermint/types"
	sdk "github.com/cosmos/cosmos-sdk/types"
	authkeeper "github.com/cosmos/cosmos-sdk/x/auth/keeper"
	authtypes "github.com/cosmos/cosmos-sdk/x/auth/types"
	bankkeeper "github.com/cosmos/cosmos-sdk/x/bank/keeper"
	paramstypes "github.com/cosmos/cosmos-sdk/x/params/types"
	"github.com/ethereum/go-ethereum/common"

	cpckeeper "github.com/EscanBE/evermint/v12/x/cpc/keeper"
	cpctypes "github.com/EscanBE/evermint/v12/x/cpc/types"
	evmkeeper "github.com/EscanBE/evermint/v12/x/evm/keeper"
	evmtypes "github.com/EscanBE/evermint/v12/x/evm/types"
	evmvm "github.com/EscanBE/evermint/v12/x/evm/vm"
	feemarkettypes "github.com/EscanBE/evermint/v12/x/feemarket/types"
	vauthkeeper "github.com/EscanBE/evermint/v12/x/vauth/keeper"
	vauthtypes "github.com/EscanBE/evermint/v12/x/vauth/types"
	"github.com/EscanBE/evermint/v12/zzverif/model"
	"github.com/EscanBE/evermint/v12/zzverif/verif"
	distkeeper "github.com/cosmos/cosmos-sdk/x/distribution/keeper"
	stakingkeeper "github.com/cosmos/cosmos-sdk/x/staking/keeper"
)

var (
	EvmKey   = storetypes.NewKVStoreKey(evmtypes.StoreKey)
	EvmTKey  = storetypes.NewTransientStoreKey(evmtypes.TransientKey)
	CpcKey   = storetypes.NewKVStoreKey(cpctypes.StoreKey)
	VAuthKey = storetypes.NewKVStoreKey(vauthtypes.StoreKey)
)

// FeeMarket is the fee-market keeper seen by x/evm (an interface there): fixed params.
type FeeMarket struct{ Params feemarkettypes.Params }

func (f *FeeMarket) GetBaseFee(ctx sdk.Context) sdkmath.Int          { return f.Params.BaseFee }
func (f *FeeMarket) GetParams(ctx sdk.Context) feemarkettypes.Params { return f.Params }

const EvmDenom = "wei"

type Env struct {
	MS     *model.MS
	Ctx    sdk.Context
	AK     authkeeper.AccountKeeper
	BK     bankkeeper.Keeper
	EK     *evmkeeper.Keeper
	CK     cpckeeper.Keeper
	VK     vauthkeeper.Keeper
	FM     *FeeMarket
	Denoms []string
	mbk    *model.BK
}

var authority = authtypes.NewModuleAddress("gov")

// Tracer is the node-local `evm.tracer` setting (app.toml / --evm.tracer) the next environment is built with.
var Tracer = ""

// New creates an environment whose bank ledger knows the given denominations
// (the EVM denomination is always the first one).
func New(extraDenoms ...string) *Env { return NewAt(1_700_000_000, extraDenoms...) }

// Header is the block header the environments run under.
func Header() cmtproto.Header {
	return cmtproto.Header{Height: 10, ChainID: "evermint_90909-1", Time: time.Unix(1_700_000_000, 0).UTC()}
}

// NewAt is New with the given block time (unix seconds, may be symbolic).
func NewAt(blockTime int64, extraDenoms ...string) *Env {
	e := &Env{Denoms: append([]string{EvmDenom}, extraDenoms...)}
	e.MS = model.NewMS(model.AuthKey, model.BankKey, EvmKey, EvmTKey, CpcKey, VAuthKey)
	e.Ctx = sdk.NewContext(e.MS, cmtproto.Header{Height: 10, ChainID: "evermint_90909-1", Time: time.Unix(blockTime, 0).UTC()}, false, model.NopLogger{})
	if verif.Symbolic() {
		e.mbk = &model.BK{Denoms: e.Denoms}
		e.BK = e.mbk
	} else {
		e.AK, e.BK = newNativeKeepers(e)
	}
	model.SetNextAccountNumberCompat(e.Ctx, e.AK, 1000)
	e.FM = &FeeMarket{Params: feemarkettypes.Params{BaseFee: sdkmath.ZeroInt(), MinGasPrice: sdkmath.LegacyZeroDec()}}
	e.EK = evmkeeper.NewKeeper(model.CodecFor(e.AK), EvmKey, EvmTKey, authority, e.AK, e.BK, nil, e.FM, Tracer, paramstypes.Subspace{})
	e.CK = cpckeeper.NewKeeper(model.CodecFor(e.AK), CpcKey, authority, e.AK, e.BK, stakingkeeper.Keeper{}, distkeeper.Keeper{})
	if err := e.CK.SetParams(e.Ctx, cpctypes.DefaultParams()); err != nil {
		panic(err)
	}
	e.EK.WithCpcKeeper(e.CK)
	e.VK = vauthkeeper.NewKeeper(model.CodecFor(e.AK), VAuthKey, e.BK, *e.EK)
	params := evmtypes.DefaultParams()
	params.EvmDenom = EvmDenom
	if err := e.EK.SetParams(e.Ctx, params); err != nil {
		panic(err)
	}
	var chainID evmtypes.Eip155ChainId
	if err := (&chainID).FromUint64(90909); err != nil {
		panic(err)
	}
	e.EK.SetEip155ChainId(e.Ctx, chainID)
	return e
}

// Restart models a process restart: the same committed stores, freshly constructed keepers (everything a keeper
// holds in memory is lost; account / bank keepers and the fee market stub hold nothing).
func (e *Env) Restart() *Env {
	r := *e
	r.EK = evmkeeper.NewKeeper(model.CodecFor(e.AK), EvmKey, EvmTKey, authority, e.AK, e.BK, nil, e.FM, Tracer, paramstypes.Subspace{})
	r.CK = cpckeeper.NewKeeper(model.CodecFor(e.AK), CpcKey, authority, e.AK, e.BK, stakingkeeper.Keeper{}, distkeeper.Keeper{})
	r.EK.WithCpcKeeper(r.CK)
	r.VK = vauthkeeper.NewKeeper(model.CodecFor(e.AK), VAuthKey, e.BK, *r.EK)
	return &r
}

func (e *Env) SetBalance(addr []byte, denom string, amt *big.Int) {
	if verif.Symbolic() {
		e.mbk.SetBalanceRaw(e.Ctx, addr, denom, sdkmath.NewIntFromBigInt(amt))
	} else {
		nativeSetBalance(e, addr, denom, amt)
	}
}

func (e *Env) SetSupply(denom string, amt *big.Int) {
	if verif.Symbolic() {
		e.mbk.SetSupplyRaw(e.Ctx, denom, sdkmath.NewIntFromBigInt(amt))
	} else {
		nativeSetSupply(e, denom, amt)
	}
}

func (e *Env) Balance(ctx sdk.Context, addr []byte, denom string) *big.Int {
	return e.BK.GetBalance(ctx, addr, denom).Amount.BigInt()
}

func (e *Env) Supply(ctx sdk.Context, denom string) *big.Int {
	return e.BK.GetSupply(ctx, denom).Amount.BigInt()
}

func (e *Env) NewStateDB(ctx sdk.Context, coinbase common.Address) evmvm.CStateDB {
	return evmvm.NewStateDB(ctx, coinbase, e.EK, e.AK, e.BK)
}

// Addr returns a fresh symbolic 20-byte address.
func Addr(name string) common.Address {
	var a common.Address
	verif.Fill(name, a[:])
	return a
}

// Amount returns a symbolic amount in [0, 2^bits).
func Amount(name string, bits uint) *big.Int {
	v := verif.Big(name)
	verif.Assume(v.Sign() >= 0 && v.Cmp(new(big.Int).Lsh(big.NewInt(1), bits)) < 0)
	return v
}

// EVMConfig builds the EVM configuration the way Keeper.EVMConfig does, with the given coinbase and base fee
// (the real one derives the coinbase from the staking keeper, which is outside the harness).
func (e *Env) EVMConfig(ctx sdk.Context, coinbase common.Address, baseFee *big.Int) *evmvm.EVMConfig {
	params := e.EK.GetParams(ctx)
	return &evmvm.EVMConfig{
		Params:      params,
		ChainConfig: params.ChainConfig.EthereumConfig(e.EK.GetEip155ChainId(ctx).BigInt()),
		CoinBase:    coinbase,
		BaseFee:     baseFee,
		NoBaseFee:   e.EK.IsNoBaseFeeEnabled(ctx),
	}
}
