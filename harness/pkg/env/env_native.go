//go:build verif

package env

import (
	"math/big"

	"cosmossdk.io/collections"
	"cosmossdk.io/log"
	sdkmath "cosmossdk.io/math"
	"github.com/cosmos/cosmos-sdk/codec"
	addresscodec "github.com/cosmos/cosmos-sdk/codec/address"
	codectypes "github.com/cosmos/cosmos-sdk/codec/types"
	cryptocodec "github.com/cosmos/cosmos-sdk/crypto/codec"
	"github.com/cosmos/cosmos-sdk/runtime"
	sdk "github.com/cosmos/cosmos-sdk/types"
	authkeeper "github.com/cosmos/cosmos-sdk/x/auth/keeper"
	authtypes "github.com/cosmos/cosmos-sdk/x/auth/types"
	vestingtypes "github.com/cosmos/cosmos-sdk/x/auth/vesting/types"
	bankkeeper "github.com/cosmos/cosmos-sdk/x/bank/keeper"
	banktypes "github.com/cosmos/cosmos-sdk/x/bank/types"

	"github.com/EscanBE/evermint/v12/zzverif/model"
)

// Native replay: the REAL auth and bank keepers over the model multistore.
func newNativeKeepers(e *Env) (authkeeper.AccountKeeper, bankkeeper.Keeper) {
	ir := codectypes.NewInterfaceRegistry()
	authtypes.RegisterInterfaces(ir)
	vestingtypes.RegisterInterfaces(ir)
	cryptocodec.RegisterInterfaces(ir)
	banktypes.RegisterInterfaces(ir)
	cdc := codec.NewProtoCodec(ir)
	model.NativeCodec = cdc
	model.NativeJSONCodec = cdc
	prefix := sdk.GetConfig().GetBech32AccountAddrPrefix()
	ak := authkeeper.NewAccountKeeper(cdc, runtime.NewKVStoreService(model.AuthKey), authtypes.ProtoBaseAccount,
		model.MaccPerms, addresscodec.NewBech32Codec(prefix), prefix, authority.String())
	bk := bankkeeper.NewBaseKeeper(cdc, runtime.NewKVStoreService(model.BankKey), ak, map[string]bool{}, authority.String(), log.NewNopLogger())
	return ak, bk
}

func nativeSetBalance(e *Env, addr []byte, denom string, amt *big.Int) {
	bk := e.BK.(bankkeeper.BaseKeeper)
	if amt.Sign() == 0 {
		_ = bk.Balances.Remove(e.Ctx, collections.Join(sdk.AccAddress(addr), denom))
		return
	}
	if err := bk.Balances.Set(e.Ctx, collections.Join(sdk.AccAddress(addr), denom), sdkmath.NewIntFromBigInt(amt)); err != nil {
		panic(err)
	}
}

func nativeSetSupply(e *Env, denom string, amt *big.Int) {
	bk := e.BK.(bankkeeper.BaseKeeper)
	if amt.Sign() == 0 {
		_ = bk.Supply.Remove(e.Ctx, denom)
		return
	}
	if err := bk.Supply.Set(e.Ctx, denom, sdkmath.NewIntFromBigInt(amt)); err != nil {
		panic(err)
	}
}
