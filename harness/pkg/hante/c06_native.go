//go:build verif

package hante

import (
	"math/big"

	sdk "github.com/cosmos/cosmos-sdk/types"
	"github.com/ethereum/go-ethereum/common"
	ethtypes "github.com/ethereum/go-ethereum/core/types"
	ethcrypto "github.com/ethereum/go-ethereum/crypto"

	evmtypes "github.com/EscanBE/evermint/v12/x/evm/types"
)

// nativeEthMsg builds a really signed (or deliberately mis-signed) Ethereum transaction for the native replay.
func nativeEthMsg(dynamic bool, nonce uint64, chainID int64, gas uint64, price *big.Int, to common.Address, unprotected, otherSigner, badSig bool) *evmtypes.MsgEthereumTx {
	key := "0000000000000000000000000000000000000000000000000000000000000001"
	if otherSigner {
		key = "0000000000000000000000000000000000000000000000000000000000000002"
	}
	prv, err := ethcrypto.HexToECDSA(key)
	if err != nil {
		panic(err)
	}
	if !otherSigner && ethcrypto.PubkeyToAddress(prv.PublicKey) != fromAddr {
		panic("fromAddr is not the address of replay key 1")
	}
	if otherSigner && ethcrypto.PubkeyToAddress(prv.PublicKey) != otherAddr {
		panic("otherAddr is not the address of replay key 2")
	}
	var inner ethtypes.TxData
	var signer ethtypes.Signer = ethtypes.LatestSignerForChainID(big.NewInt(chainID))
	if dynamic {
		inner = &ethtypes.DynamicFeeTx{ChainID: big.NewInt(chainID), Nonce: nonce, GasTipCap: big.NewInt(1), GasFeeCap: price, Gas: gas, To: &to, Value: big.NewInt(0)}
	} else {
		inner = &ethtypes.LegacyTx{Nonce: nonce, GasPrice: price, Gas: gas, To: &to, Value: big.NewInt(0)}
		if unprotected {
			signer = ethtypes.HomesteadSigner{}
		}
	}
	tx, err := ethtypes.SignNewTx(prv, signer, inner)
	if err != nil {
		panic(err)
	}
	if badSig {
		v, _, s := tx.RawSignatureValues()
		if dynamic {
			tx = ethtypes.NewTx(&ethtypes.DynamicFeeTx{ChainID: big.NewInt(chainID), Nonce: nonce, GasTipCap: big.NewInt(1), GasFeeCap: price, Gas: gas, To: &to, Value: big.NewInt(0), V: v, R: big.NewInt(0), S: s})
		} else {
			tx = ethtypes.NewTx(&ethtypes.LegacyTx{Nonce: nonce, GasPrice: price, Gas: gas, To: &to, Value: big.NewInt(0), V: v, R: big.NewInt(0), S: s})
		}
	}
	bz, err := tx.MarshalBinary()
	if err != nil {
		panic(err)
	}
	return &evmtypes.MsgEthereumTx{MarshalledTx: bz, From: sdk.AccAddress(fromAddr[:]).String()}
}
