//go:build verif

package hante

import (
	"encoding/hex"
	"math/big"

	sdk "github.com/cosmos/cosmos-sdk/types"
	authtypes "github.com/cosmos/cosmos-sdk/x/auth/types"
	"github.com/ethereum/go-ethereum/common"
	ethcrypto "github.com/ethereum/go-ethereum/crypto"

	vauthkeeper "github.com/EscanBE/evermint/v12/x/vauth/keeper"
	vauthtypes "github.com/EscanBE/evermint/v12/x/vauth/types"
	"github.com/EscanBE/evermint/v12/zzverif/env"
	"github.com/EscanBE/evermint/v12/zzverif/model"
	"github.com/EscanBE/evermint/v12/zzverif/verif"
)

var cost = new(big.Int).Exp(big.NewInt(10), big.NewInt(18), nil)

// signature over the module's fixed message: by the account's key, by another key, or garbage
func proofSignature(by int) string {
	if verif.Symbolic() {
		model.VauthSigErr = by == 2
		model.VauthSigValidFor = fromAddr
		if by == 1 {
			model.VauthSigValidFor = otherAddr
		}
		return "0x" + hex.EncodeToString([]byte{0xab, byte(by), 0x01})
	}
	key := "0000000000000000000000000000000000000000000000000000000000000001"
	if by == 1 {
		key = "0000000000000000000000000000000000000000000000000000000000000002"
	}
	prv, err := ethcrypto.HexToECDSA(key)
	if err != nil {
		panic(err)
	}
	sig, err := ethcrypto.Sign(ethcrypto.Keccak256([]byte(vauthtypes.MessageToSign)), prv)
	if err != nil {
		panic(err)
	}
	if by == 2 {
		sig = sig[:10] // not a signature
	}
	return "0x" + hex.EncodeToString(sig)
}

// H_C16_2_SubmitProof: the real vauth message server SubmitProofExternalOwnedAccount (with the message's and the
// stored proof's ValidateBasic) under the runTx branch discipline: a proof is stored only together with a
// signature that the account's own key made over the fixed message, submitted by somebody else, for an account
// without proof; it costs the submitter exactly the fixed fee, which is burnt (supply - 10^18, module account
// back at zero); a refused submission stores nothing and burns nothing; a second submission is refused.
func H_C16_2_SubmitProof() {
	e := env.New()
	account := sdk.AccAddress(fromAddr[:])
	submitter := sdk.AccAddress(otherAddr[:])
	if verif.Bool("submitterIsAccount") {
		submitter = account
	}
	sigBy := verif.Choice("signedBy", 3)
	prior := verif.Bool("priorProof")
	bal := env.Amount("submitter.bal", 100)
	rest := env.Amount("supplyRest", 100)
	verif.Assume(rest.Sign() > 0)
	e.AK.SetAccount(e.Ctx, &authtypes.BaseAccount{Address: submitter.String(), AccountNumber: 10, Sequence: 1})
	e.SetBalance(submitter, env.EvmDenom, bal)
	e.SetSupply(env.EvmDenom, new(big.Int).Add(bal, rest))
	if prior {
		e.Ctx.KVStore(env.VAuthKey).Set(vauthtypes.KeyProofExternalOwnedAccountByAddress(account), []byte{1})
	}
	msg := &vauthtypes.MsgSubmitProofExternalOwnedAccount{Submitter: submitter.String(), Account: account.String(), Signature: proofSignature(sigBy)}
	srv := vauthkeeper.NewMsgServerImpl(e.VK)
	before := e.MS.Snapshot()
	supply0 := new(big.Int).Set(e.Supply(e.Ctx, env.EvmDenom))

	ctx, write := e.Ctx.CacheContext()
	var err error
	panicked := verif.Try(func() { _, err = srv.SubmitProofExternalOwnedAccount(ctx, msg) })
	ok := !panicked && err == nil
	if ok {
		write()
	}
	if !ok {
		verif.Assert("refused-submission-stores-and-burns-nothing", model.SameContent(before, e.MS))
		verif.Reach("refused")
		return
	}
	verif.Reach("stored")
	verif.Assert("proof-needs-signature-by-the-account-key", sigBy == 0)
	verif.Assert("proof-not-submitted-by-the-account-itself", !submitter.Equals(account))
	verif.Assert("proven-account-is-never-proved-again", !prior)
	verif.Assert("submitter-pays-exactly-the-fee", new(big.Int).Sub(bal, e.Balance(e.Ctx, submitter, env.EvmDenom)).Cmp(cost) == 0)
	verif.Assert("fee-is-burnt", new(big.Int).Sub(supply0, e.Supply(e.Ctx, env.EvmDenom)).Cmp(cost) == 0)
	verif.Assert("module-account-back-at-zero", e.Balance(e.Ctx, authtypes.NewModuleAddress(vauthtypes.ModuleName), env.EvmDenom).Sign() == 0)
	verif.Assert("proof-is-stored", e.VK.HasProofExternalOwnedAccount(e.Ctx, account))
	p := e.VK.GetProofExternalOwnedAccount(e.Ctx, account)
	verif.Assert("stored-proof-carries-account-and-signature", p != nil && p.Account == account.String() && p.Signature == msg.Signature)
	// final: a second submission for the same account is refused and changes nothing
	mid := e.MS.Snapshot()
	ctx2, _ := e.Ctx.CacheContext()
	var err2 error
	p2 := verif.Try(func() { _, err2 = srv.SubmitProofExternalOwnedAccount(ctx2, msg) })
	verif.Assert("second-submission-refused", p2 || err2 != nil)
	verif.Assert("second-submission-changes-nothing", model.SameContent(mid, e.MS))
	_ = common.Address{}
}
