//go:build verif

package hante

import (
	"math/big"

	sdkmath "cosmossdk.io/math"
	codectypes "github.com/cosmos/cosmos-sdk/codec/types"
	sdk "github.com/cosmos/cosmos-sdk/types"
	sdkerrors "github.com/cosmos/cosmos-sdk/types/errors"
	sdktxtypes "github.com/cosmos/cosmos-sdk/types/tx"
	sdkauthante "github.com/cosmos/cosmos-sdk/x/auth/ante"
	authtypes "github.com/cosmos/cosmos-sdk/x/auth/types"
	"github.com/ethereum/go-ethereum/common"
	ethtypes "github.com/ethereum/go-ethereum/core/types"
	ethcrypto "github.com/ethereum/go-ethereum/crypto"
	protov2 "google.golang.org/protobuf/proto"

	"github.com/EscanBE/evermint/v12/app/antedl/duallane"
	"github.com/EscanBE/evermint/v12/app/antedl/evmlane"
	"github.com/EscanBE/evermint/v12/constants"
	evmtypes "github.com/EscanBE/evermint/v12/x/evm/types"
	"github.com/EscanBE/evermint/v12/zzverif/env"
	"github.com/EscanBE/evermint/v12/zzverif/model"
	"github.com/EscanBE/evermint/v12/zzverif/verif"
)

// PTx is a transaction as the dual-lane decorators see it: the protobuf Tx plus its decoded messages.
type PTx struct {
	P    *sdktxtypes.Tx
	Msgs []sdk.Msg
}

func (t *PTx) GetMsgs() []sdk.Msg                    { return t.Msgs }
func (t *PTx) GetMsgsV2() ([]protov2.Message, error) { return nil, nil }
func (t *PTx) GetProtoTx() *sdktxtypes.Tx            { return t.P }
func (t *PTx) GetGas() uint64                        { return t.P.AuthInfo.Fee.GasLimit }
func (t *PTx) GetFee() sdk.Coins                     { return t.P.AuthInfo.Fee.Amount }
func (t *PTx) FeePayer() []byte                      { return t.Msgs[0].(*evmtypes.MsgEthereumTx).GetFrom() }
func (t *PTx) FeeGranter() []byte                    { return nil }
func (t *PTx) GetExtensionOptions() []*codectypes.Any { return t.P.Body.ExtensionOptions }
func (t *PTx) GetNonCriticalExtensionOptions() []*codectypes.Any {
	return t.P.Body.NonCriticalExtensionOptions
}

// ValidateBasic: what the SDK's tx wrapper reports for a transaction without signatures (the part of the SDK's
// stateless validation an Ethereum transaction can trip over).
func (t *PTx) ValidateBasic() error {
	if len(t.P.Signatures) == 0 {
		return sdkerrors.ErrNoSignatures
	}
	return nil
}

var (
	fromAddr  = common.HexToAddress("0x7E5F4552091A69125d5DfCb7b8C2659029395Bdf")
	otherAddr = common.HexToAddress("0x2B5AD5c4795c026514f8317c7a215E218DcCD6cF")
)

// deviations from a well-formed Ethereum transaction (at most two are switched on at a time)
const (
	dMemo = iota
	dTimeout
	dForeignExtension
	dNonCriticalExtension
	dSignatures
	dSignerInfos
	dPayer
	dGranter
	dFeeAmount
	dFeeDenom
	dGasLimit
	dUnprotected
	dWrongChainID
	dSignerIsNotFrom
	dBadSignature
	dNonceLow
	dNonceHigh
	dSenderHasCode
	dSecondMessage
	dLongDeclaredSender // the declared sender is a 32-byte address whose last 20 bytes are the signer's address
	nDeviations
)

// H_C06_1_Admission: the real EVM-lane admission decorators (extension options, validate-basic, EOA check,
// timeout, memo, signature verification with go-ethereum's real signer logic, sequence increment) on a single
// Ethereum message that is well formed except for up to two symbolic deviations. It is admitted iff there is no
// deviation; when admitted the sender's sequence is one higher and flagged, when refused nothing has changed.
// This is both C06 (replay protection for this chain id, signature recovers to the declared sender, nonce equals
// the account sequence, sender is an EOA) and the EVM-lane half of C07 (sole message, no Cosmos signatures /
// signer infos / payer / granter / memo / timeout / foreign or non-critical extension, fee and gas limit equal
// to those of the embedded transaction).
func H_C06_1_Admission() {
	model.ResetAuthz()
	model.ResetTxs()
	e := env.New()
	seq := verif.Uint64("sequence")
	verif.Assume(seq > 0 && seq < 1<<62)
	var dev [nDeviations]bool
	d1 := verif.Choice("deviation1", nDeviations+1) // nDeviations = none
	d2 := verif.Choice("deviation2", nDeviations+1)
	if d1 < nDeviations {
		dev[d1] = true
	}
	if d2 < nDeviations {
		dev[d2] = true
	}
	dynamic := verif.Bool("dynamicFee")
	if dynamic {
		dev[dUnprotected] = false // typed transactions are always replay protected
	}
	recheck := false
	mode := verif.Choice("mode", 3) // deliver, check, re-check
	ctx := e.Ctx
	switch mode {
	case 1:
		ctx = ctx.WithIsCheckTx(true)
	case 2:
		ctx = ctx.WithIsCheckTx(true).WithIsReCheckTx(true)
		recheck = true
	}

	e.AK.SetAccount(ctx, &authtypes.BaseAccount{Address: sdk.AccAddress(fromAddr[:]).String(), AccountNumber: 10, Sequence: seq})
	if dev[dSenderHasCode] {
		code := []byte{0x60, 0x00}
		h := ethcrypto.Keccak256Hash(code)
		e.EK.SetCode(ctx, h.Bytes(), code)
		e.EK.SetCodeHash(ctx, fromAddr, h)
	}

	// ---- the embedded Ethereum transaction
	nonce := seq
	if dev[dNonceLow] {
		nonce = seq - 1
	}
	if dev[dNonceHigh] {
		nonce = seq + 1
	}
	chainID := int64(90909)
	if dev[dWrongChainID] {
		chainID = 1
	}
	gas := uint64(100000)
	price := big.NewInt(7)
	to := otherAddr
	var msg *evmtypes.MsgEthereumTx
	if verif.Symbolic() {
		var ethTx *ethtypes.Transaction
		if dynamic {
			ethTx = ethtypes.NewTx(&ethtypes.DynamicFeeTx{ChainID: big.NewInt(chainID), Nonce: nonce, GasTipCap: big.NewInt(1), GasFeeCap: price, Gas: gas, To: &to, Value: big.NewInt(0),
				V: big.NewInt(0), R: big.NewInt(1), S: big.NewInt(1)})
		} else {
			v := big.NewInt(35 + 2*chainID)
			if dev[dUnprotected] {
				v = big.NewInt(27)
			}
			ethTx = ethtypes.NewTx(&ethtypes.LegacyTx{Nonce: nonce, GasPrice: price, Gas: gas, To: &to, Value: big.NewInt(0), V: v, R: big.NewInt(1), S: big.NewInt(1)})
		}
		signer := fromAddr
		if dev[dSignerIsNotFrom] {
			signer = otherAddr
		}
		handle := []byte{0xfd, 'T', 'X', 1}
		model.RegisterTx(handle, &model.TxInfo{Tx: ethTx, Signer: signer, Hash: common.BytesToHash([]byte{0xaa, 1}), SigErr: dev[dBadSignature]})
		msg = &evmtypes.MsgEthereumTx{MarshalledTx: handle, From: sdk.AccAddress(fromAddr[:]).String()}
	} else {
		msg = nativeEthMsg(dynamic, nonce, chainID, gas, price, to, dev[dUnprotected], dev[dSignerIsNotFrom], dev[dBadSignature])
	}
	if dev[dLongDeclaredSender] {
		long := append([]byte{1, 2, 3, 4, 5, 6, 7, 8, 9, 10, 11, 12}, fromAddr[:]...)
		e.AK.SetAccount(ctx, &authtypes.BaseAccount{Address: sdk.AccAddress(long).String(), AccountNumber: 11, Sequence: seq})
		msg.From = sdk.AccAddress(long).String()
	}

	// ---- the enclosing Cosmos transaction as MsgEthereumTx.BuildTx makes it
	feeAmt := new(big.Int).Mul(price, new(big.Int).SetUint64(gas))
	if dev[dFeeAmount] {
		feeAmt = new(big.Int).Sub(feeAmt, big.NewInt(1))
	}
	feeDenom := env.EvmDenom
	if dev[dFeeDenom] {
		feeDenom = "other"
	}
	p := &sdktxtypes.Tx{Body: &sdktxtypes.TxBody{}, AuthInfo: &sdktxtypes.AuthInfo{Fee: &sdktxtypes.Fee{Amount: sdk.Coins{sdk.NewCoin(feeDenom, sdkmath.NewIntFromBigInt(feeAmt))}, GasLimit: gas}}}
	if verif.Bool("withEthereumExtensionOption") {
		p.Body.ExtensionOptions = []*codectypes.Any{{TypeUrl: constants.EthermintExtensionOptionsEthereumTx}}
	}
	if dev[dMemo] {
		p.Body.Memo = "hello"
	}
	if dev[dTimeout] {
		p.Body.TimeoutHeight = 99
	}
	if dev[dForeignExtension] {
		p.Body.ExtensionOptions = append(p.Body.ExtensionOptions, &codectypes.Any{TypeUrl: "/ethermint.types.v1.ExtensionOptionDynamicFeeTx"})
	}
	if dev[dNonCriticalExtension] {
		p.Body.NonCriticalExtensionOptions = []*codectypes.Any{{TypeUrl: "/some.Option"}}
	}
	if dev[dSignatures] {
		p.Signatures = [][]byte{{1}}
	}
	if dev[dSignerInfos] {
		p.AuthInfo.SignerInfos = []*sdktxtypes.SignerInfo{{Sequence: 1}}
	}
	if dev[dPayer] {
		p.AuthInfo.Fee.Payer = sdk.AccAddress(otherAddr[:]).String()
	}
	if dev[dGranter] {
		p.AuthInfo.Fee.Granter = sdk.AccAddress(otherAddr[:]).String()
	}
	if dev[dGasLimit] {
		p.AuthInfo.Fee.GasLimit = gas + 1
	}
	msgs := []sdk.Msg{msg}
	if dev[dSecondMessage] {
		msgs = append(msgs, send())
	}
	tx := &PTx{P: p, Msgs: msgs}

	before := e.MS.Snapshot()
	reached := false
	terminal := func(c sdk.Context, _ sdk.Tx, _ bool) (sdk.Context, error) { reached = true; return c, nil }
	decs := []sdk.AnteDecorator{
		duallane.NewDualLaneExtensionOptionsDecorator(rejectAll{}),
		duallane.NewDualLaneValidateBasicDecorator(*e.EK, sdkauthante.NewValidateBasicDecorator()),
		evmlane.NewEvmLaneValidateBasicEoaDecorator(e.AK, *e.EK),
		duallane.NewDualLaneTxTimeoutHeightDecorator(sdkauthante.NewTxTimeoutHeightDecorator()),
		duallane.NewDualLaneValidateMemoDecorator(sdkauthante.NewValidateMemoDecorator(e.AK)),
		duallane.NewDualLaneSigVerificationDecorator(e.AK, *e.EK, sdkauthante.SigVerificationDecorator{}),
		duallane.NewDualLaneIncrementSequenceDecorator(e.AK, *e.EK, sdkauthante.IncrementSequenceDecorator{}),
	}
	var err error
	panicked := verif.Try(func() { _, err = sdk.ChainAnteDecorators(append(decs, terminalDecorator{terminal})...)(ctx, tx, false) })
	if err != nil {
		verif.Note("err", err.Error())
	}
	admitted := !panicked && err == nil && reached

	anyDev := false
	for _, d := range dev {
		anyDev = anyDev || d
	}
	if dev[dSecondMessage] {
		// not a single-Ethereum-message transaction: it belongs to the Cosmos lane, whose decorators (stubbed
		// here by a rejecting SDK decorator) and CLRejectEthereumMsgs refuse it; see H_C07_1
		verif.Assert("ethereum-message-beside-others-not-admitted-by-evm-lane", !admitted)
		return
	}
	if !recheck {
		verif.Assert("admitted-iff-well-formed-and-authorised", admitted == !anyDev)
	} else {
		// re-check skips the stateless validation (the bytes already passed check): only refusals are compared
		verif.Assert("recheck-admits-well-formed", anyDev || admitted)
	}
	if admitted {
		verif.Assert("admission-increments-sequence-once", e.EK.GetNonce(ctx, fromAddr) == seq+1)
		verif.Assert("admission-flags-the-increment", e.EK.IsSenderNonceIncreasedByAnteHandle(ctx))
		verif.Reach("admitted")
	} else {
		verif.Assert("refusal-changes-nothing", model.SameContent(before, e.MS))
		verif.Reach("refused")
	}
}

// rejectAll stands for the Cosmos-lane SDK decorator behind a dual-lane decorator: an Ethereum transaction must never reach it.
type rejectAll struct{}

func (rejectAll) AnteHandle(ctx sdk.Context, _ sdk.Tx, _ bool, _ sdk.AnteHandler) (sdk.Context, error) {
	return ctx, sdkerrors.ErrUnknownExtensionOptions
}

type terminalDecorator struct {
	f func(sdk.Context, sdk.Tx, bool) (sdk.Context, error)
}

func (t terminalDecorator) AnteHandle(ctx sdk.Context, tx sdk.Tx, sim bool, _ sdk.AnteHandler) (sdk.Context, error) {
	return t.f(ctx, tx, sim)
}
