//go:build verif

package hante

import (
	"math/big"

	sdkmath "cosmossdk.io/math"
	codectypes "github.com/cosmos/cosmos-sdk/codec/types"
	sdk "github.com/cosmos/cosmos-sdk/types"
	sdktxtypes "github.com/cosmos/cosmos-sdk/types/tx"
	"github.com/ethereum/go-ethereum/common"
	ethtypes "github.com/ethereum/go-ethereum/core/types"

	"github.com/EscanBE/evermint/v12/app/antedl/duallane"
	evertypes "github.com/EscanBE/evermint/v12/types"
	evmtypes "github.com/EscanBE/evermint/v12/x/evm/types"
	"github.com/EscanBE/evermint/v12/zzverif/env"
	"github.com/EscanBE/evermint/v12/zzverif/model"
	"github.com/EscanBE/evermint/v12/zzverif/verif"
)

var ten18 = new(big.Int).Exp(big.NewInt(10), big.NewInt(18), nil)

// (Fee coins are sanitised the way MsgEthereumTx.BuildTx / the SDK tx builder produce them: no zero-amount coin.)
// H_C09_2_FeeAdmission: the real fee checkers (DualLaneFeeChecker -> CosmosTxFeeChecker / EthereumTxFeeChecker,
// getMinGasPricesAllowed, getTxPriority) on a symbolic transaction: whenever a fee is accepted, the effective
// gas price - gas price, fee / gas, or min(tip + base fee, fee cap) - is at least the current base fee and at
// least the integer part of the global minimum gas price, and in check mode also at least the integer part of
// the validator's own minimum; the fee that will be deducted is effective price x gas.
func H_C09_2_FeeAdmission() {
	model.ResetAuthz()
	model.ResetTxs()
	e := env.New()
	base := env.Amount("baseFee", 100)
	minRaw := env.Amount("minGasPriceRaw", 160) // 18-decimals fixed point
	valMinRaw := env.Amount("validatorMinGasPriceRaw", 160)
	e.FM.Params.BaseFee = sdkmath.NewIntFromBigInt(base)
	e.FM.Params.MinGasPrice = sdkmath.LegacyNewDecFromBigIntWithPrec(minRaw, sdkmath.LegacyPrecision)
	gasChoices := []uint64{1, 21000, 1_000_000}
	gas := gasChoices[verif.Choice("gas", len(gasChoices))]
	check := verif.Bool("checkTx")
	ctx := e.Ctx
	if check {
		ctx = ctx.WithIsCheckTx(true).WithMinGasPrices(sdk.DecCoins{sdk.NewDecCoinFromDec(env.EvmDenom, sdkmath.LegacyNewDecFromBigIntWithPrec(valMinRaw, sdkmath.LegacyPrecision))})
	}
	var tx sdk.Tx
	var effPrice *big.Int
	kind := verif.Choice("txKind", 4)
	switch kind {
	case 0, 1: // Cosmos transaction, without / with the dynamic-fee extension option
		fee := env.Amount("fee", 200)
		p := &sdktxtypes.Tx{Body: &sdktxtypes.TxBody{}, AuthInfo: &sdktxtypes.AuthInfo{Fee: &sdktxtypes.Fee{Amount: sdk.NewCoins(sdk.NewCoin(env.EvmDenom, sdkmath.NewIntFromBigInt(fee))), GasLimit: gas}}}
		feeCap := new(big.Int).Quo(fee, new(big.Int).SetUint64(gas))
		effPrice = feeCap
		if kind == 1 {
			tip := env.Amount("tip", 100)
			ext := &evertypes.ExtensionOptionDynamicFeeTx{MaxPriorityPrice: sdkmath.NewIntFromBigInt(tip)}
			var a *codectypes.Any
			if verif.Symbolic() {
				a = model.RegisterAny("/ethermint.types.v1.ExtensionOptionDynamicFeeTx", ext)
			} else {
				var err error
				if a, err = codectypes.NewAnyWithValue(ext); err != nil {
					panic(err)
				}
			}
			p.Body.ExtensionOptions = []*codectypes.Any{a}
			effPrice = new(big.Int).Add(tip, base)
			if effPrice.Cmp(feeCap) > 0 {
				effPrice = feeCap
			}
		}
		tx = &PTx{P: p, Msgs: []sdk.Msg{send()}}
	default: // Ethereum transaction, legacy / dynamic fee
		to := otherAddr
		var ethTx *ethtypes.Transaction
		if kind == 2 {
			gp := env.Amount("gasPrice", 100)
			ethTx = ethtypes.NewTx(&ethtypes.LegacyTx{Nonce: 1, GasPrice: gp, Gas: gas, To: &to, Value: big.NewInt(0), V: big.NewInt(35 + 2*90909), R: big.NewInt(1), S: big.NewInt(1)})
			effPrice = gp
		} else {
			tip, cap_ := env.Amount("tip", 100), env.Amount("cap", 100)
			verif.Assume(tip.Cmp(cap_) <= 0)
			ethTx = ethtypes.NewTx(&ethtypes.DynamicFeeTx{ChainID: big.NewInt(90909), Nonce: 1, GasTipCap: tip, GasFeeCap: cap_, Gas: gas, To: &to, Value: big.NewInt(0), V: big.NewInt(0), R: big.NewInt(1), S: big.NewInt(1)})
			effPrice = new(big.Int).Add(tip, base)
			if effPrice.Cmp(cap_) > 0 {
				effPrice = cap_
			}
		}
		if !verif.Symbolic() {
			return // Ethereum transactions need real signing natively; the Cosmos kinds are replayed natively
		}
		handle := []byte{0xfd, 'T', 'X', 2}
		model.RegisterTx(handle, &model.TxInfo{Tx: ethTx, Signer: fromAddr, Hash: common.BytesToHash([]byte{0xaa, 2})})
		msg := &evmtypes.MsgEthereumTx{MarshalledTx: handle, From: sdk.AccAddress(fromAddr[:]).String()}
		declared := new(big.Int).Mul(ethTx.GasFeeCap(), new(big.Int).SetUint64(gas))
		p := &sdktxtypes.Tx{Body: &sdktxtypes.TxBody{}, AuthInfo: &sdktxtypes.AuthInfo{Fee: &sdktxtypes.Fee{Amount: sdk.NewCoins(sdk.NewCoin(env.EvmDenom, sdkmath.NewIntFromBigInt(declared))), GasLimit: gas}}}
		tx = &PTx{P: p, Msgs: []sdk.Msg{msg}}
	}
	var fee sdk.Coins
	var err error
	panicked := verif.Try(func() { fee, _, err = duallane.DualLaneFeeChecker(e.EK, e.FM)(ctx, tx) })
	if panicked {
		// observation (DESIGN 0.4): an effective fee that truncates to zero makes getTxPriority index an empty
		// coin list; BaseApp.runTx recovers the panic, so the transaction is refused, not executed
		verif.Reach("refused-by-recovered-panic")
		return
	}
	if err != nil {
		verif.Reach("refused")
		return
	}
	verif.Reach("accepted")
	globalMin := new(big.Int).Quo(minRaw, ten18)
	verif.Assert("accepted-effective-price-at-least-base-fee", effPrice.Cmp(base) >= 0)
	verif.Assert("accepted-effective-price-at-least-global-minimum", effPrice.Cmp(globalMin) >= 0)
	if check {
		verif.Assert("check-mode-price-at-least-validator-minimum", effPrice.Cmp(new(big.Int).Quo(valMinRaw, ten18)) >= 0)
	}
	if kind != 0 {
		verif.Assert("deducted-fee-is-effective-price-times-gas", len(fee) == 1 && fee[0].Amount.BigInt().Cmp(new(big.Int).Mul(effPrice, new(big.Int).SetUint64(gas))) == 0)
	}
}
