//go:build verif

// Package hante holds the harnesses for the Cosmos-lane ante decorators (lane isolation, nested-message
// screening, vesting authorisation), driven with symbolic transaction shapes.
package hante

import (
	sdkmath "cosmossdk.io/math"
	codectypes "github.com/cosmos/cosmos-sdk/codec/types"
	sdk "github.com/cosmos/cosmos-sdk/types"
	vestingtypes "github.com/cosmos/cosmos-sdk/x/auth/vesting/types"
	"github.com/cosmos/cosmos-sdk/x/authz"
	banktypes "github.com/cosmos/cosmos-sdk/x/bank/types"
	protov2 "google.golang.org/protobuf/proto"

	"github.com/EscanBE/evermint/v12/app/antedl"
	"github.com/EscanBE/evermint/v12/app/antedl/cosmoslane"
	evmtypes "github.com/EscanBE/evermint/v12/x/evm/types"
	vauthtypes "github.com/EscanBE/evermint/v12/x/vauth/types"
	"github.com/EscanBE/evermint/v12/zzverif/env"
	"github.com/EscanBE/evermint/v12/zzverif/model"
	"github.com/EscanBE/evermint/v12/zzverif/verif"
)

type HTx struct{ Msgs []sdk.Msg }

func (t *HTx) GetMsgs() []sdk.Msg                    { return t.Msgs }
func (t *HTx) GetMsgsV2() ([]protov2.Message, error) { return nil, nil }

var (
	proven   = sdk.AccAddress([]byte{0x11, 0x11, 0x11, 0x11, 0x11, 0x11, 0x11, 0x11, 0x11, 0x11, 0x11, 0x11, 0x11, 0x11, 0x11, 0x11, 0x11, 0x11, 0x11, 0x01})
	unproven = sdk.AccAddress([]byte{0x22, 0x22, 0x22, 0x22, 0x22, 0x22, 0x22, 0x22, 0x22, 0x22, 0x22, 0x22, 0x22, 0x22, 0x22, 0x22, 0x22, 0x22, 0x22, 0x02})
	someone  = sdk.AccAddress([]byte{0x33, 0x33, 0x33, 0x33, 0x33, 0x33, 0x33, 0x33, 0x33, 0x33, 0x33, 0x33, 0x33, 0x33, 0x33, 0x33, 0x33, 0x33, 0x33, 0x03})
)

func mkExec(inner []sdk.Msg) sdk.Msg {
	if verif.Symbolic() {
		return model.NewExec(inner)
	}
	m := authz.NewMsgExec(someone, inner)
	return &m
}

func mkGrant(url string) sdk.Msg {
	a := authz.NewGenericAuthorization(url)
	if verif.Symbolic() {
		return model.NewGrant(a)
	}
	m, err := authz.NewMsgGrant(someone, proven, a, nil)
	if err != nil {
		panic(err)
	}
	return m
}

func send() sdk.Msg {
	return &banktypes.MsgSend{FromAddress: someone.String(), ToAddress: proven.String(), Amount: sdk.NewCoins(sdk.NewCoin("wei", sdkmath.NewInt(1)))}
}

// special leaf kinds
const (
	lSend = iota
	lEth
	lVestProven
	lVestUnproven
	lGrantDisabled
	lGrantOther
	nLeaf
)

var disabledURLs = []string{"/ethermint.evm.v1.MsgEthereumTx", "/cosmos.vesting.v1beta1.MsgCreateVestingAccount",
	"/cosmos.vesting.v1beta1.MsgCreatePeriodicVestingAccount", "/cosmos.vesting.v1beta1.MsgCreatePermanentLockedAccount"}

func vesting(kind int, to sdk.AccAddress) sdk.Msg {
	amt := sdk.NewCoins(sdk.NewCoin("wei", sdkmath.NewInt(1)))
	switch kind {
	case 0:
		return &vestingtypes.MsgCreateVestingAccount{FromAddress: someone.String(), ToAddress: to.String(), Amount: amt, EndTime: 100}
	case 1:
		return &vestingtypes.MsgCreatePeriodicVestingAccount{FromAddress: someone.String(), ToAddress: to.String(), StartTime: 1, VestingPeriods: []vestingtypes.Period{{Length: 10, Amount: amt}}}
	}
	return &vestingtypes.MsgCreatePermanentLockedAccount{FromAddress: someone.String(), ToAddress: to.String(), Amount: amt}
}

func leaf(name string, kind int) sdk.Msg {
	switch kind {
	case lSend:
		return send()
	case lEth:
		return &evmtypes.MsgEthereumTx{MarshalledTx: []byte{0xfd, 'T', 'X', 0x7f}, From: someone.String()}
	case lVestProven:
		return vesting(verif.Choice(name+".vestKind", 3), proven)
	case lVestUnproven:
		return vesting(verif.Choice(name+".vestKind", 3), unproven)
	case lGrantDisabled:
		return mkGrant(disabledURLs[verif.Choice(name+".url", len(disabledURLs))])
	case lGrantOther:
		return mkGrant("/cosmos.bank.v1beta1.MsgSend")
	}
	panic("bad leaf")
}

// sibling kinds next to the spine element of a level
const (
	sNone = iota
	sSend
	sExecSend // a harmless MsgExec{MsgSend}
	nSib
	sVestProven = nSib // (top level only) a vesting-creation message for the proven address
)

func sibling(k int) []sdk.Msg {
	switch k {
	case sSend:
		return []sdk.Msg{send()}
	case sExecSend:
		return []sdk.Msg{mkExec([]sdk.Msg{send()})}
	case sVestProven:
		return []sdk.Msg{vesting(0, proven)}
	}
	return nil
}

// build makes the message list of one level: [before...] spine [after...]; below the last level the spine is the
// special leaf, otherwise a MsgExec around the next level. maxLevel records the deepest level holding a message.
func build(level, depth, special int, maxLevel *int) []sdk.Msg {
	pfx := "L" + string(rune('0'+level))
	nb, na := sNone, sNone
	if depth <= 3 { // beyond the cap only the bare spine is explored
		n := nSib
		if level == 1 {
			n = nSib + 1
		}
		nb, na = verif.Choice(pfx+".before", n), verif.Choice(pfx+".after", n)
	}
	before, after := sibling(nb), sibling(na)
	if level > *maxLevel {
		*maxLevel = level
	}
	if (nb == sExecSend || na == sExecSend) && level+1 > *maxLevel {
		*maxLevel = level + 1
	}
	var spine sdk.Msg
	if level == depth {
		spine = leaf("special", special)
	} else {
		spine = mkExec(build(level+1, depth, special, maxLevel))
	}
	msgs := append([]sdk.Msg{}, before...)
	msgs = append(msgs, spine)
	return append(msgs, after...)
}

// H_C07_1_CosmosLaneScreening: the real Cosmos-lane decorators (reject Ethereum messages, reject nested /
// granted disabled messages with the configured default list and depth cap, vesting authorisation) on a
// symbolic transaction shape: a spine of 0..3 MsgExec levels (level 1 = top level), optional harmless siblings
// (a MsgSend or a MsgExec{MsgSend}) before and after the spine element of every level, and one special message
// of symbolic kind at the end of the spine. Oracle: an independent predicate written from the property text.
func H_C07_1_CosmosLaneScreening() {
	model.ResetAuthz()
	model.ResetTxs()
	e := env.New()
	// the proven address has a stored ownership proof
	// (the record is written directly: what the decorator consults is the presence of the key; the
	// signature check of the submission path is the subject of H_C16_2)
	e.Ctx.KVStore(env.VAuthKey).Set(vauthtypes.KeyProofExternalOwnedAccountByAddress(proven), []byte{1})
	depth := 1 + verif.Choice("depth", 4) // level of the special message: 1 (top level) .. 4 (beyond the cap)
	special := verif.Choice("special.kind", nLeaf)
	maxLevel := 0
	msgs := build(1, depth, special, &maxLevel)
	tx := &HTx{Msgs: msgs}

	opts := antedl.HandlerOptions{}.WithDefaultDisabledNestedMsgs()
	d1 := cosmoslane.NewCosmosLaneRejectEthereumMsgsDecorator()
	d2 := cosmoslane.NewCosmosLaneRejectAuthzMsgsDecorator(opts.DisabledNestedMsgs)
	d3 := cosmoslane.NewCosmosLaneVestingMessagesAuthorizationDecorator(e.VK)
	reached := false
	terminal := func(ctx sdk.Context, _ sdk.Tx, _ bool) (sdk.Context, error) { reached = true; return ctx, nil }
	var err error
	panicked := verif.Try(func() {
		_, err = d1.AnteHandle(e.Ctx, tx, false, func(ctx sdk.Context, tx sdk.Tx, sim bool) (sdk.Context, error) {
			return d2.AnteHandle(ctx, tx, sim, func(ctx sdk.Context, tx sdk.Tx, sim bool) (sdk.Context, error) {
				return d3.AnteHandle(ctx, tx, sim, terminal)
			})
		})
	})
	verif.Assert("no-panic", !panicked)
	accepted := err == nil && reached
	if err != nil {
		verif.Note("err", err.Error())
	}

	// ---- oracle
	single := len(msgs) == 1
	singleEth := single && depth == 1 && special == lEth
	var want bool
	switch {
	case singleEth:
		want = true // the EVM lane: Cosmos-lane decorators pass it through
	case maxLevel > 3:
		want = false // nesting beyond the cap
	default:
		want = true
		switch special {
		case lEth:
			want = false // an Ethereum message beside other messages or nested
		case lVestProven:
			want = depth == 1 // never nested
		case lVestUnproven:
			want = false // nested: disabled; top level: no proof
		case lGrantDisabled:
			want = false
		}
	}
	verif.Assert("accepted-iff-policy-allows", accepted == want)
	if accepted {
		verif.Reach("accepted")
	} else {
		verif.Reach("rejected")
	}
	_ = codectypes.Any{}
}
