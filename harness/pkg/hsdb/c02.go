//go:build verif

package hsdb

import (
	"math/big"

	authtypes "github.com/cosmos/cosmos-sdk/x/auth/types"

	"github.com/ethereum/go-ethereum/common"

	"github.com/EscanBE/evermint/v12/zzverif/env"
	"github.com/EscanBE/evermint/v12/zzverif/verif"
)

// refObj is go-ethereum's state object as far as the vm.StateDB interface shows it (core/state/state_object.go,
// statedb.go of go-ethereum v1.10.26): the reference model of H_C02_2.
type refObj struct {
	exists   bool
	balance  *big.Int
	nonce    uint64
	hasCode  bool
	s1       common.Hash
	suicided bool
}

func (o *refObj) empty() bool { return o.nonce == 0 && o.balance.Sign() == 0 && !o.hasCode }

const (
	r2AddBalance = iota
	r2SubBalance
	r2Suicide
	r2SetNonce
	r2SetState
	r2CreateAccount
	r2SetCode
	nRef2Ops
)

// H_C02_2_StateDBRefinement: sequences of three operations on one account of the real context-based StateDB
// against go-ethereum's state-object semantics; after every step every getter of the vm.StateDB interface must
// agree with the reference (balance, nonce, code, storage, Exist, Empty, HasSuicided).
// go-ethereum semantics encoded: AddBalance/SubBalance/SetNonce/SetState/SetCode create the object if missing;
// Suicide returns false for a missing object, otherwise marks it and zeroes the balance EVERY time it is called;
// CreateAccount resets nonce, code and storage and carries the balance over; a self-destructed object stays
// visible (Exist) until the end of the transaction.
func H_C02_2_StateDBRefinement() {
	a := NewAcct("a", plainKinds, false, false, false)
	verif.Assume(a.Addr != common.BytesToAddress(authtypes.NewModuleAddress("evm")))
	e := newWorld([]*Acct{a}, supplyRest())
	sdb := e.NewStateDB(e.Ctx, common.Address{})
	ref := &refObj{exists: a.Kind != KNone, balance: new(big.Int).Set(a.Bal), nonce: a.Nonce}
	if a.Kind == KNone {
		// coins at an address without account: go-ethereum has no such state; start from an existing object
		verif.Assume(a.Bal.Sign() == 0)
	}
	for step := 0; step < 3; step++ {
		pfx := "op" + itoa(step)
		switch verif.Choice(pfx, nRef2Ops) {
		case r2AddBalance:
			amt := env.Amount(pfx+".amt", 100)
			sdb.AddBalance(a.Addr, amt)
			ref.exists = ref.exists || amt.Sign() > 0 // (an empty touched object is removed at commit: EIP-158)
			ref.balance = new(big.Int).Add(ref.balance, amt)
		case r2SubBalance:
			amt := env.Amount(pfx+".amt", 100)
			verif.Assume(amt.Cmp(ref.balance) <= 0)
			sdb.SubBalance(a.Addr, amt)
			ref.balance = new(big.Int).Sub(ref.balance, amt)
		case r2Suicide:
			got := sdb.Suicide(a.Addr)
			verif.Assert("suicide-returns-whether-object-exists", got == ref.exists)
			if ref.exists {
				ref.suicided = true
				ref.balance = big.NewInt(0)
			}
		case r2SetNonce:
			n := verif.Uint64(pfx + ".nonce")
			sdb.SetNonce(a.Addr, n)
			ref.exists, ref.nonce = true, n
		case r2SetState:
			v := common.BytesToHash([]byte{verif.Uint8(pfx + ".val")})
			sdb.SetState(a.Addr, slot1, v)
			ref.exists, ref.s1 = true, v
		case r2CreateAccount:
			sdb.CreateAccount(a.Addr)
			ref.exists, ref.nonce, ref.hasCode, ref.s1, ref.suicided = true, 0, false, common.Hash{}, ref.suicided
		case r2SetCode:
			sdb.SetCode(a.Addr, someCode)
			ref.exists, ref.hasCode = true, true
		}
		verif.Assert("balance-as-go-ethereum", sdb.GetBalance(a.Addr).Cmp(ref.balance) == 0)
		verif.Assert("nonce-as-go-ethereum", sdb.GetNonce(a.Addr) == ref.nonce)
		verif.Assert("storage-as-go-ethereum", sdb.GetState(a.Addr, slot1) == ref.s1)
		verif.Assert("code-as-go-ethereum", (sdb.GetCodeSize(a.Addr) > 0) == ref.hasCode)
		verif.Assert("suicided-as-go-ethereum", sdb.HasSuicided(a.Addr) == ref.suicided)
		if ref.exists {
			verif.Assert("exist-as-go-ethereum", sdb.Exist(a.Addr))
		}
	}
	verif.ReachIf("suicide-after-refund", ref.suicided)
}
