//go:build verif

package hsdb

import (
	"math/big"

	"github.com/ethereum/go-ethereum/common"

	"github.com/EscanBE/evermint/v12/zzverif/env"
	"github.com/EscanBE/evermint/v12/zzverif/model"
	"github.com/EscanBE/evermint/v12/zzverif/verif"
)

// H_C01_1_CommitOrder: the same StateDB history committed twice, each time with an independently chosen
// iteration order for every ranged-over Go map (touched / selfDestructed sets, access list, ...), yields the
// same stores AND the same event sequence. Two to three touched accounts, each symbolic
// {untouched-empty | holding balances in two denominations | self-destructed}.
func H_C01_1_CommitOrder() {
	n := 2 + verif.Choice("nAccounts", 2)
	var accts []*Acct
	var addrs []common.Address
	for i := 0; i < n; i++ {
		// concrete, distinct addresses in an order that is neither ascending nor descending: what is explored
		// exhaustively here is the iteration order of the maps, not the address bytes
		a := &Acct{Addr: common.BytesToAddress([]byte{byte(0x50 + (i*7)%5), byte(i)}), Bal: big.NewInt(0), BalO: big.NewInt(0)}
		switch verif.Choice("acc"+itoa(i)+".profile", 3) {
		case 0: // empty base account
			a.Kind = KBase
		case 1: // base account holding both denominations
			a.Kind = KBase
			a.Bal, a.BalO = env.Amount("acc"+itoa(i)+".bal", 128), env.Amount("acc"+itoa(i)+".balOther", 128)
			verif.Assume(a.Bal.Sign() > 0 && a.BalO.Sign() > 0)
		case 2: // coins at an address without auth account
			a.Bal = env.Amount("acc"+itoa(i)+".bal", 128)
			verif.Assume(a.Bal.Sign() > 0)
		}
		accts = append(accts, a)
		addrs = append(addrs, a.Addr)
	}
	// per account: what the transaction did to it
	acts := make([]int, n)
	for i := range acts {
		acts[i] = verif.Choice("act"+itoa(i), 2) // 0 touch only, 1 self-destruct
	}
	rest := supplyRest()
	run := func() (*env.Env, bool) {
		e := newWorld(accts, rest)
		sdb := e.NewStateDB(e.Ctx, common.Address{})
		p := verif.Try(func() {
			for i, a := range accts {
				switch acts[i] {
				case 0:
					sdb.AddBalance(a.Addr, big.NewInt(0))
				case 1:
					sdb.Suicide(a.Addr)
				case 2:
					sdb.AddBalance(a.Addr, big.NewInt(7))
				}
			}
			verif.MapOrder(true)
			if err := sdb.CommitMultiStore(true); err != nil {
				panic(err)
			}
		})
		verif.MapOrder(false)
		return e, p
	}
	e1, p1 := run()
	e2, p2 := run()
	verif.Assert("same-outcome", p1 == p2)
	if p1 || p2 {
		return
	}
	verif.Assert("same-stores", model.SameContent(e1.MS, e2.MS))
	verif.Assert("same-events", EventsEqual(e1.Ctx.EventManager().Events(), e2.Ctx.EventManager().Events()))
	if len(e1.Ctx.EventManager().Events()) >= 8 {
		verif.Reach("two-destroyed-accounts-with-balances")
	}
}

// H_C01_2_Clock: destroying an account (directly, by CREATE collision, by self-destruct or EIP-158 deletion at
// commit) gives the same outcome and state whatever the wall clock says: time.Now() is a fresh symbolic value
// at every call, and the two executions are independent.
func H_C01_2_Clock() {
	a := NewAcct("a", allKinds, false, false, false)
	bt := verif.Int64("blockTime")
	verif.Assume(bt >= 0 && bt < 1<<40)
	op := verif.Choice("op", 4)
	rest := supplyRest()
	run := func() (*env.Env, bool) {
		e := env.NewAt(bt, "other")
		Install(e, a, 10)
		setSuppliesWith(e, []*Acct{a}, rest)
		sdb := e.NewStateDB(e.Ctx, common.Address{})
		p := verif.Try(func() {
			switch op {
			case 0:
				sdb.DestroyAccount(a.Addr)
			case 1:
				sdb.CreateAccount(a.Addr)
			case 2:
				sdb.Suicide(a.Addr)
			case 3:
				sdb.AddBalance(a.Addr, big.NewInt(0))
			}
			if err := sdb.CommitMultiStore(true); err != nil {
				panic(err)
			}
		})
		return e, p
	}
	e1, p1 := run()
	e2, p2 := run()
	verif.Assert("same-outcome-any-wall-clock", p1 == p2)
	if p1 || p2 {
		if p1 && p2 && a.Kind >= KContinuousVesting {
			verif.Reach("vesting-destroy-refused")
		}
		return
	}
	verif.Assert("same-stores-any-wall-clock", model.SameContent(e1.MS, e2.MS))
	verif.Assert("same-events-any-wall-clock", EventsEqual(e1.Ctx.EventManager().Events(), e2.Ctx.EventManager().Events()))
}
