//go:build verif

package hsdb

import (
	"github.com/ethereum/go-ethereum/common"

	"github.com/EscanBE/evermint/v12/zzverif/env"
	"github.com/EscanBE/evermint/v12/zzverif/model"
	"github.com/EscanBE/evermint/v12/zzverif/verif"
)

// H_C20_3_BeginBlockRing: one inductive step of the x/evm begin blocker (the real Keeper.BeginBlock ->
// WithChainID, SetBlockHashForCurrentBlockAndPruneOld) from an arbitrary state satisfying the block-hash ring
// invariant of the previous block ("an entry exists only for heights in [h-256, h-1]"; the entry q is any one of
// them, present or not) at a symbolic height h in [1, 2^62): the begin blocker never panics, stores the header
// hash of h, removes exactly the entry of h-256, keeps every other entry, answers BLOCKHASH for h, and running it
// again (SetupExecutionContext calls it for every transaction) changes nothing. The BLOCKHASH function
// (GetHashFn) never panics for any requested height other than the current one.
func H_C20_3_BeginBlockRing() {
	e := env.New()
	h := verif.Int64("height")
	verif.Assume(h >= 1 && h < 1<<62)
	q := verif.Int64("otherHeight")
	verif.Assume(q >= 1 && q < h && q >= h-256)
	qPresent := verif.Bool("otherPresent")
	// the header hash (32 bytes of SHA-256 output, never the zero hash); its content plays no role
	hdr := [32]byte{0x7a, 0x11, 31: 0x5c}
	qHash := common.BytesToHash([]byte{0x51, 0x51})
	ctxPrev := e.Ctx.WithBlockHeight(q).WithHeaderHash(qHash.Bytes())
	if qPresent {
		e.EK.SetBlockHashForCurrentBlockAndPruneOld(ctxPrev)
	}
	ctx := e.Ctx.WithBlockHeight(h).WithHeaderHash(hdr[:])
	panicked := verif.Try(func() { e.EK.BeginBlock(ctx) })
	verif.Assert("begin-block-never-panics", !panicked)
	if panicked {
		return
	}
	var got, gotQ common.Hash
	p2 := verif.Try(func() {
		got = e.EK.GetBlockHashByBlockNumber(ctx, h)
		gotQ = e.EK.GetBlockHashByBlockNumber(ctx, q)
	})
	verif.Assert("block-hash-lookup-never-panics-after-begin-block", !p2)
	verif.Assert("current-header-hash-stored", got == common.BytesToHash(hdr[:]))
	if q == h-256 {
		verif.Assert("entry-256-blocks-back-pruned", gotQ == (common.Hash{}))
		verif.Reach("pruned")
	} else if qPresent {
		verif.Assert("younger-entry-kept", gotQ == qHash)
		verif.Reach("kept")
	} else {
		verif.Assert("absent-entry-stays-absent", gotQ == (common.Hash{}))
	}
	snap := e.MS.Snapshot()
	p3 := verif.Try(func() { e.EK.BeginBlock(ctx); e.EK.SetBlockHashForCurrentBlockAndPruneOld(ctx) })
	verif.Assert("begin-block-is-idempotent", !p3 && model.SameContent(snap, e.MS))
	// BLOCKHASH for an arbitrary requested height
	req := verif.Uint64("requested")
	verif.Assume(req != uint64(h))
	fn := e.EK.GetHashFn(ctx)
	var ans common.Hash
	p4 := verif.Try(func() { ans = fn(req) })
	verif.Assert("blockhash-never-panics", !p4)
	if req > uint64(h) || req == 0 {
		verif.Assert("future-or-zero-height-has-zero-hash", ans == (common.Hash{}))
	}
}

// H_C01_6_ProcessLifetime: block begin / end processing of the EVM and fee-market-facing keepers performs the same
// store writes - the same keys in the same order, including re-writes of unchanged values, which an IAVL store
// turns into new node versions and hence a different application hash - whether the node process has been running
// since the previous block or was restarted in between (keepers constructed afresh over the same committed
// stores): two environments execute block h-1 identically; one keeps its keepers, the other is "restarted"; both
// execute BeginBlock and EndBlock of block h (symbolic height), and the write logs and the contents are compared.
func H_C01_6_ProcessLifetime() {
	h := verif.Int64("height")
	verif.Assume(h >= 2 && h < 1<<62)
	hdrPrev := [32]byte{0x11, 31: 0x01}
	hdr := [32]byte{0x7a, 0x11, 31: 0x5c}
	a, b := env.New(), env.New()
	for _, e := range []*env.Env{a, b} {
		prev := e.Ctx.WithBlockHeight(h - 1).WithHeaderHash(hdrPrev[:])
		e.EK.BeginBlock(prev)
		e.EK.EndBlock(prev)
	}
	verif.Assert("same-state-after-the-previous-block", model.SameContent(a.MS, b.MS))
	b = b.Restart() // node b is restarted between block h-1 and block h
	a.MS.ResetWriteLogs()
	b.MS.ResetWriteLogs()
	var pa, pb bool
	for i, e := range []*env.Env{a, b} {
		ctx := e.Ctx.WithBlockHeight(h).WithHeaderHash(hdr[:])
		p := verif.Try(func() {
			e.EK.BeginBlock(ctx)
			e.EK.EndBlock(ctx)
		})
		if i == 0 {
			pa = p
		} else {
			pb = p
		}
	}
	verif.Assert("restart-does-not-change-the-outcome", pa == pb && !pa)
	verif.Assert("restart-does-not-change-the-store-contents", model.SameContent(a.MS, b.MS))
	verif.Assert("restart-does-not-change-the-sequence-of-store-writes", model.SameWriteLogs(a.MS, b.MS))
	verif.Reach("compared")
}
