//go:build verif

package hsdb

import (
	"math/big"

	sdk "github.com/cosmos/cosmos-sdk/types"
	authtypes "github.com/cosmos/cosmos-sdk/x/auth/types"
	vestingexported "github.com/cosmos/cosmos-sdk/x/auth/vesting/exported"
	"github.com/ethereum/go-ethereum/common"

	"github.com/EscanBE/evermint/v12/zzverif/env"
	"github.com/EscanBE/evermint/v12/zzverif/verif"
)

var allKinds = []int{KNone, KBase, KModule, KContinuousVesting, KDelayedVesting, KPeriodicVesting, KPermanentLocked, KBareBaseVesting}

const (
	dDestroy       = iota // DestroyAccount(a) directly (what CREATE-collision and commit use)
	dCreate               // CreateAccount(a)
	dSuicideCommit        // Suicide(a); CommitMultiStore(true)
	dTouchCommit          // AddBalance(a, 0) (touch); CommitMultiStore(true): EIP-158 deletion of touched empty accounts
	dPayCommit            // AddBalance(a, amt); CommitMultiStore(true)
	dSpendCommit          // SubBalance(a, amt); CommitMultiStore(true)
	nDestroyOps
)

func isVestingKind(k int) bool { return k >= KContinuousVesting }

func endTimeOf(acc sdk.AccountI) (int64, bool) {
	if va, ok := acc.(vestingexported.VestingAccount); ok {
		return va.GetEndTime(), true
	}
	return 0, false
}

// H_C15_1_DestroyGuard: whatever StateDB operation (followed by commit) is applied to an account of any kind,
// the auth record is removed / replaced only if the account is not a module account, is not a vesting account
// whose end time lies after the BLOCK time, and (for the implicit deletion at commit) it self-destructed or was
// empty in every respect (nonce, code, storage, every denomination); otherwise the operation panics (=> the
// whole transaction fails). A removed account is removed completely.
func H_C15_1_DestroyGuard() {
	a := NewAcct("a", allKinds, true, true, true)
	bt := verif.Int64("blockTime")
	verif.Assume(bt >= 0 && bt < 1<<40)
	e := env.NewAt(bt, "other")
	verif.Assume(a.Addr != common.BytesToAddress(authtypes.NewModuleAddress("evm")))
	Install(e, a, 10)
	setSuppliesWith(e, []*Acct{a}, supplyRest())
	op := verif.Choice("op", nDestroyOps)
	amt := big.NewInt(0)
	if op == dPayCommit || op == dSpendCommit {
		amt = env.Amount("amt", 128)
	}
	supBefore := new(big.Int).Set(e.Supply(e.Ctx, env.EvmDenom))
	supOBefore := new(big.Int).Set(e.Supply(e.Ctx, "other"))

	sdb := e.NewStateDB(e.Ctx, common.Address{})
	committed := op >= dSuicideCommit
	wasSuicided := false
	panicked := verif.Try(func() {
		switch op {
		case dDestroy:
			sdb.DestroyAccount(a.Addr)
		case dCreate:
			sdb.CreateAccount(a.Addr)
		case dSuicideCommit:
			wasSuicided = sdb.Suicide(a.Addr)
		case dTouchCommit:
			sdb.AddBalance(a.Addr, big.NewInt(0))
		case dPayCommit:
			sdb.AddBalance(a.Addr, amt)
		case dSpendCommit:
			sdb.SubBalance(a.Addr, amt)
		}
		if committed {
			if err := sdb.CommitMultiStore(true); err != nil {
				panic(err)
			}
		}
	})
	verif.Note("panic", verif.PanicMsg())
	if panicked {
		// the transaction fails as a whole: nothing reached the original context
		verif.Assert("failed-op-leaves-committed-state", e.Balance(e.Ctx, a.Addr[:], env.EvmDenom).Cmp(a.Bal) == 0)
		return
	}
	ctx := sdb.GetCurrentContext()
	if committed {
		ctx = e.Ctx
	}
	after := e.AK.GetAccount(ctx, a.Addr[:])
	existed := a.Kind != KNone
	removed := existed && after == nil
	replaced := false
	if existed && after != nil {
		_, isBase := after.(*authtypes.BaseAccount)
		replaced = after.GetAccountNumber() != 10 || (a.Kind != KBase && isBase)
	}
	gone := removed || replaced
	if removed {
		verif.ReachIf("removed-account-holding-both-denoms", verif.And(a.Bal.Sign() > 0, a.BalO.Sign() > 0))
		verif.ReachIf("removed-expired-vesting-account", isVestingKind(a.Kind))
	}
	verif.Assert("module-account-never-destroyed", !(a.Kind == KModule && gone))
	isVesting := a.Kind >= KContinuousVesting
	endTime := a.EndTime
	if a.Kind == KPermanentLocked {
		endTime = 0 // GetEndTime() of a permanently locked account (see DESIGN: oracle follows GetEndTime)
	}
	verif.Assert("unexpired-vesting-never-destroyed", !(isVesting && endTime > bt && gone))
	wasEmpty := a.Nonce == 0 && !a.HasCode && a.S1 == (common.Hash{}) && a.Bal.Sign() == 0 && a.BalO.Sign() == 0
	switch op {
	case dTouchCommit, dPayCommit, dSpendCommit:
		// implicit deletion at commit: only accounts that are empty in every respect
		emptyAfterOp := wasEmpty
		if op == dPayCommit {
			emptyAfterOp = wasEmpty && amt.Sign() == 0
		}
		if op == dSpendCommit {
			emptyAfterOp = a.Nonce == 0 && !a.HasCode && a.S1 == (common.Hash{}) && a.BalO.Sign() == 0 && a.Bal.Cmp(amt) == 0
		}
		verif.Assert("non-empty-account-never-deleted", !gone || emptyAfterOp)
		verif.Assert("touched-empty-account-deleted", !(existed && emptyAfterOp) || removed)
	case dSuicideCommit:
		verif.Assert("suicide-only-existing", wasSuicided == existed)
		verif.Assert("selfdestructed-account-removed", !existed || removed)
	case dDestroy:
		verif.Assert("destroy-removes", !existed || removed)
	}
	// complete removal
	if removed || (a.Kind == KNone && (op == dDestroy || (op == dTouchCommit && wasEmpty))) {
		verif.Assert("removed-no-balance", verif.And(e.Balance(ctx, a.Addr[:], env.EvmDenom).Sign() == 0, e.Balance(ctx, a.Addr[:], "other").Sign() == 0))
		verif.Assert("removed-no-code", verif.And(e.EK.GetCodeHash(ctx, a.Addr[:]) == (common.Hash{}), len(sdb.GetCode(a.Addr)) == 0))
		verif.Assert("removed-no-storage", e.EK.GetState(ctx, a.Addr, slot1) == (common.Hash{}))
		nslots := 0
		e.EK.ForEachStorage(ctx, a.Addr, func(_, _ common.Hash) bool { nslots++; return true })
		verif.Assert("removed-no-storage-iter", nslots == 0)
		// burnt exactly what was held (suicide burns the EVM denom first, destroy the rest)
		if op != dPayCommit && op != dSpendCommit {
			verif.Assert("removed-burns-exactly-held", verif.And(
				new(big.Int).Sub(supBefore, e.Supply(ctx, env.EvmDenom)).Cmp(a.Bal) == 0,
				new(big.Int).Sub(supOBefore, e.Supply(ctx, "other")).Cmp(a.BalO) == 0))
		}
	}
	if op == dCreate {
		// CreateAccount carries the balances over and resets everything else
		verif.Assert("create-carries-balances", verif.And(e.Balance(ctx, a.Addr[:], env.EvmDenom).Cmp(a.Bal) == 0, e.Balance(ctx, a.Addr[:], "other").Cmp(a.BalO) == 0))
		verif.Assert("create-supply-unchanged", verif.And(e.Supply(ctx, env.EvmDenom).Cmp(supBefore) == 0, e.Supply(ctx, "other").Cmp(supOBefore) == 0))
		verif.Assert("create-resets-nonce-code-storage", verif.And(sdb.GetNonce(a.Addr) == 0, sdb.GetCodeSize(a.Addr) == 0, sdb.GetState(a.Addr, slot1) == (common.Hash{})))
		verif.Assert("create-makes-account", after != nil)
	}
	evmModule := authtypes.NewModuleAddress("evm")
	verif.Assert("evm-module-account-zero", e.Balance(ctx, evmModule, env.EvmDenom).Sign() == 0)
}
