//go:build verif

// Package hsdb holds the harnesses that drive the real context-based StateDB
// (x/evm/vm cStateDb) and the real x/evm keeper.
package hsdb

import (
	"math/big"

	authtypes "github.com/cosmos/cosmos-sdk/x/auth/types"
	"github.com/ethereum/go-ethereum/common"

	evmtypes "github.com/EscanBE/evermint/v12/x/evm/types"
	"github.com/EscanBE/evermint/v12/zzverif/env"
	"github.com/EscanBE/evermint/v12/zzverif/verif"
)

var two256 = new(big.Int).Lsh(big.NewInt(1), 256)

// H_C04_2_Ledger: every balance mutator of the StateDB, from an arbitrary
// ledger state: AddBalance mints exactly b to exactly addr, SubBalance burns
// exactly b from addr (or panics, changing nothing that survives), the EVM
// module account is left at zero, no other denomination moves.
func H_C04_2_Ledger() {
	e := env.New("other")
	a := env.Addr("a")
	bal := env.Amount("bal", 255)
	other := env.Amount("balOther", 255)
	sup := env.Amount("supply", 255)
	verif.Assume(sup.Cmp(bal) >= 0) // x/bank invariant: supply >= any balance
	e.SetBalance(a[:], env.EvmDenom, bal)
	e.SetBalance(a[:], "other", other)
	e.SetSupply(env.EvmDenom, sup)
	e.SetSupply("other", other)
	amt := env.Amount("amt", 255)
	evmModule := authtypes.NewModuleAddress(evmtypes.ModuleName)
	verif.Assume(a != common.BytesToAddress(evmModule))

	op := verif.Choice("op", 2)
	sdb := e.NewStateDB(e.Ctx, common.Address{})
	panicked := verif.Try(func() {
		if op == 0 {
			sdb.AddBalance(a, amt)
		} else {
			sdb.SubBalance(a, amt)
		}
	})
	ctx := sdb.GetCurrentContext()
	if op == 0 {
		verif.Assert("add-no-panic", !panicked)
		if panicked {
			return
		}
		verif.Assert("add-credits-exactly", e.Balance(ctx, a[:], env.EvmDenom).Cmp(new(big.Int).Add(bal, amt)) == 0)
		verif.Assert("add-supply-plus-b", e.Supply(ctx, env.EvmDenom).Cmp(new(big.Int).Add(sup, amt)) == 0)
	} else {
		verif.Assert("sub-panics-iff-insufficient", panicked == (amt.Cmp(bal) > 0))
		if panicked {
			return
		}
		verif.Assert("sub-debits-exactly", e.Balance(ctx, a[:], env.EvmDenom).Cmp(new(big.Int).Sub(bal, amt)) == 0)
		verif.Assert("sub-supply-minus-b", e.Supply(ctx, env.EvmDenom).Cmp(new(big.Int).Sub(sup, amt)) == 0)
	}
	verif.Assert("module-account-zero", e.Balance(ctx, evmModule, env.EvmDenom).Sign() == 0)
	verif.Assert("other-denom-untouched", e.Balance(ctx, a[:], "other").Cmp(other) == 0 && e.Supply(ctx, "other").Cmp(other) == 0)
	// nothing reaches the original context before commit
	verif.Assert("not-committed-early", e.Balance(e.Ctx, a[:], env.EvmDenom).Cmp(bal) == 0)
}
