//go:build verif

package hsdb

import (
	"math/big"
	"strconv"

	sdkmath "cosmossdk.io/math"
	sdk "github.com/cosmos/cosmos-sdk/types"
	authtypes "github.com/cosmos/cosmos-sdk/x/auth/types"
	vestingtypes "github.com/cosmos/cosmos-sdk/x/auth/vesting/types"
	"github.com/ethereum/go-ethereum/common"
	ethtypes "github.com/ethereum/go-ethereum/core/types"
	ethcrypto "github.com/ethereum/go-ethereum/crypto"

	evmvm "github.com/EscanBE/evermint/v12/x/evm/vm"
	"github.com/EscanBE/evermint/v12/zzverif/env"
	"github.com/EscanBE/evermint/v12/zzverif/verif"
)

// ---- account kinds ----------------------------------------------------------

const (
	KNone = iota // no auth account
	KBase
	KModule
	KContinuousVesting
	KDelayedVesting
	KPeriodicVesting
	KPermanentLocked
	KBareBaseVesting
	NKinds
)

var someCode = []byte{0x60, 0x00, 0x60, 0x00, 0xf3}
var otherCode = []byte{0x60, 0x01, 0x60, 0x00, 0xf3, 0x00}

// Slot names used by the harnesses (concrete keys; the property does not depend on the key bytes).
var (
	slot1 = common.BytesToHash([]byte{1})
	slot2 = common.BytesToHash([]byte{2})
)

// Acct is the symbolic description of one initial account.
type Acct struct {
	Addr    common.Address
	Kind    int
	Nonce   uint64
	Bal     *big.Int // EVM denom
	BalO    *big.Int // other denom
	HasCode bool
	S1      common.Hash // value of slot1 (zero = absent)
	EndTime int64       // vesting end time
}

// NewAcct draws a symbolic account description. kinds lists the admissible kinds.
func NewAcct(name string, kinds []int, withCode, withStorage, withOther bool) *Acct {
	a := &Acct{Addr: env.Addr(name)}
	a.Kind = kinds[verif.Choice(name+".kind", len(kinds))]
	a.Bal = env.Amount(name+".bal", 128)
	a.BalO = big.NewInt(0)
	if withOther {
		a.BalO = env.Amount(name+".balOther", 128)
	}
	if a.Kind != KNone {
		a.Nonce = verif.Uint64(name + ".nonce")
		verif.Assume(a.Nonce < 1<<62)
		if withCode && a.Kind == KBase {
			a.HasCode = verif.Bool(name + ".hasCode")
		}
		if withStorage && a.Kind == KBase {
			if verif.Bool(name + ".hasSlot1") {
				b := verif.Uint8(name + ".slot1")
				verif.Assume(b != 0)
				a.S1 = common.BytesToHash([]byte{b})
			}
		}
		if a.Kind >= KContinuousVesting {
			a.EndTime = verif.Int64(name + ".endTime")
			verif.Assume(a.EndTime >= 0 && a.EndTime < 1<<40)
		}
	}
	return a
}

func mkAccount(a *Acct, number uint64) sdk.AccountI {
	base := &authtypes.BaseAccount{Address: sdk.AccAddress(a.Addr[:]).String(), AccountNumber: number, Sequence: a.Nonce}
	switch a.Kind {
	case KNone:
		return nil
	case KBase:
		return base
	case KModule:
		return &authtypes.ModuleAccount{BaseAccount: base, Name: "zzmod", Permissions: nil}
	}
	bva := &vestingtypes.BaseVestingAccount{BaseAccount: base, OriginalVesting: sdk.NewCoins(sdk.NewCoin(env.EvmDenom, sdkmath.NewInt(1))), EndTime: a.EndTime}
	switch a.Kind {
	case KContinuousVesting:
		// cliff-shaped schedule (start = end): the linear in-between amounts need LegacyDec division of symbolic
		// values (outside the engine); the destroy guard and the lock only depend on the end time.
		return &vestingtypes.ContinuousVestingAccount{BaseVestingAccount: bva, StartTime: a.EndTime}
	case KDelayedVesting:
		return &vestingtypes.DelayedVestingAccount{BaseVestingAccount: bva}
	case KPeriodicVesting:
		return &vestingtypes.PeriodicVestingAccount{BaseVestingAccount: bva, StartTime: 0}
	case KPermanentLocked:
		bva.EndTime = 0
		return &vestingtypes.PermanentLockedAccount{BaseVestingAccount: bva}
	case KBareBaseVesting:
		return bva
	}
	panic("bad kind")
}

// Install writes the account into the environment (auth record, balances, code, storage).
func Install(e *env.Env, a *Acct, number uint64) {
	if acc := mkAccount(a, number); acc != nil {
		e.AK.SetAccount(e.Ctx, acc)
	}
	e.SetBalance(a.Addr[:], env.EvmDenom, a.Bal)
	if len(e.Denoms) > 1 {
		e.SetBalance(a.Addr[:], e.Denoms[1], a.BalO)
	}
	if a.HasCode {
		h := ethcrypto.Keccak256Hash(someCode)
		e.EK.SetCode(e.Ctx, h.Bytes(), someCode)
		e.EK.SetCodeHash(e.Ctx, a.Addr, h)
	}
	if a.S1 != (common.Hash{}) {
		e.EK.SetState(e.Ctx, a.Addr, slot1, a.S1.Bytes())
	}
}

// ---- operations ---------------------------------------------------------------

const (
	OpAddBalance = iota
	OpSubBalance
	OpSetNonce
	OpSetCode
	OpSetState
	OpSuicide
	OpCreateAccount
	OpAddLog
	OpAddRefund
	OpSubRefund
	OpAddAddressToAccessList
	OpAddSlotToAccessList
	OpSetTransientState
	OpKeeperWrite // what a stateful precompile does: a bank send through GetCurrentContext()
	NOps
)

// Op is one StateDB operation with symbolic arguments drawn up-front (so two runs can share it).
type Op struct {
	Kind int
	A, B common.Address
	Amt  *big.Int
	N    uint64
	Slot common.Hash
	Val  common.Hash
	Code []byte
}

// NewOp draws a symbolic operation over the given addresses (which may alias).
func NewOp(name string, kinds []int, addrs []common.Address) *Op {
	o := &Op{Kind: kinds[verif.Choice(name+".kind", len(kinds))]}
	o.A = addrs[verif.Choice(name+".a", len(addrs))]
	o.B = addrs[0]
	o.Amt = big.NewInt(0)
	o.Slot = slot1
	switch o.Kind {
	case OpAddBalance, OpSubBalance:
		o.Amt = env.Amount(name+".amt", 128)
	case OpKeeperWrite:
		o.Amt = env.Amount(name+".amt", 128)
		o.B = addrs[verif.Choice(name+".b", len(addrs))]
	case OpSetNonce, OpAddRefund, OpSubRefund:
		o.N = verif.Uint64(name + ".n")
	case OpSetCode:
		if verif.Bool(name + ".otherCode") {
			o.Code = otherCode
		} else {
			o.Code = someCode
		}
	case OpSetState, OpSetTransientState, OpAddSlotToAccessList:
		if verif.Bool(name + ".slot2") {
			o.Slot = slot2
		}
		o.Val = common.BytesToHash([]byte{verif.Uint8(name + ".val")})
	}
	return o
}

// Apply performs the operation on the StateDB. Panics propagate.
func (o *Op) Apply(e *env.Env, sdb evmvm.CStateDB) {
	switch o.Kind {
	case OpAddBalance:
		sdb.AddBalance(o.A, o.Amt)
	case OpSubBalance:
		sdb.SubBalance(o.A, o.Amt)
	case OpSetNonce:
		sdb.SetNonce(o.A, o.N)
	case OpSetCode:
		sdb.SetCode(o.A, o.Code)
	case OpSetState:
		sdb.SetState(o.A, o.Slot, o.Val)
	case OpSuicide:
		sdb.Suicide(o.A)
	case OpCreateAccount:
		sdb.CreateAccount(o.A)
	case OpAddLog:
		sdb.AddLog(&ethtypes.Log{Address: o.A, Topics: []common.Hash{o.Slot}})
	case OpAddRefund:
		sdb.AddRefund(o.N)
	case OpSubRefund:
		sdb.SubRefund(o.N)
	case OpAddAddressToAccessList:
		sdb.AddAddressToAccessList(o.A)
	case OpAddSlotToAccessList:
		sdb.AddSlotToAccessList(o.A, o.Slot)
	case OpSetTransientState:
		sdb.SetTransientState(o.A, o.Slot, o.Val)
	case OpKeeperWrite:
		if o.Amt.Sign() > 0 {
			if err := e.BK.SendCoins(sdb.GetCurrentContext(), o.A[:], o.B[:], sdk.NewCoins(sdk.NewCoin(env.EvmDenom, sdkmath.NewIntFromBigInt(o.Amt)))); err != nil {
				panic(err)
			}
		}
	default:
		panic("bad op")
	}
}

// ---- observation ---------------------------------------------------------------

// Obs is everything observable through the StateDB about the probe addresses.
type Obs struct {
	Bal, BalO         []*big.Int
	Nonce             []uint64
	CodeHash          []common.Hash
	CodeSize          []int
	S1, S2            []common.Hash
	C1                []common.Hash
	T1, T2            []common.Hash
	Exist, Empty, Sui []bool
	WarmA, WarmS1     []bool
	WarmS2            []bool
	Touched, SelfD    []bool
	Refund            uint64
	NLogs             int
	LogAddrs          []common.Address
	NSnapshots        int
	NTransient        int
	Supply, SupplyO   *big.Int
}

func Observe(e *env.Env, sdb evmvm.CStateDB, probes []common.Address) *Obs {
	o := &Obs{}
	ctx := sdb.GetCurrentContext()
	touched := sdb.ForTest_CloneTouched()
	selfd := sdb.ForTest_CloneSelfDestructed()
	for _, p := range probes {
		o.Bal = append(o.Bal, sdb.GetBalance(p))
		if len(e.Denoms) > 1 {
			o.BalO = append(o.BalO, e.Balance(ctx, p[:], e.Denoms[1]))
		}
		o.Nonce = append(o.Nonce, sdb.GetNonce(p))
		o.CodeHash = append(o.CodeHash, sdb.GetCodeHash(p))
		o.CodeSize = append(o.CodeSize, sdb.GetCodeSize(p))
		o.S1 = append(o.S1, sdb.GetState(p, slot1))
		o.S2 = append(o.S2, sdb.GetState(p, slot2))
		o.C1 = append(o.C1, sdb.GetCommittedState(p, slot1))
		o.T1 = append(o.T1, sdb.GetTransientState(p, slot1))
		o.T2 = append(o.T2, sdb.GetTransientState(p, slot2))
		o.Exist = append(o.Exist, sdb.Exist(p))
		o.Empty = append(o.Empty, sdb.Empty(p))
		o.Sui = append(o.Sui, sdb.HasSuicided(p))
		o.WarmA = append(o.WarmA, sdb.AddressInAccessList(p))
		_, s1 := sdb.SlotInAccessList(p, slot1)
		_, s2 := sdb.SlotInAccessList(p, slot2)
		o.WarmS1 = append(o.WarmS1, s1)
		o.WarmS2 = append(o.WarmS2, s2)
		o.Touched = append(o.Touched, touched.Has(p))
		o.SelfD = append(o.SelfD, selfd.Has(p))
	}
	o.Refund = sdb.GetRefund()
	logs := sdb.GetTransactionLogs()
	o.NLogs = len(logs)
	for _, l := range logs {
		o.LogAddrs = append(o.LogAddrs, l.Address)
	}
	o.NTransient = sdb.ForTest_CountRecordsTransientStorage()
	o.Supply = e.Supply(ctx, env.EvmDenom)
	if len(e.Denoms) > 1 {
		o.SupplyO = e.Supply(ctx, e.Denoms[1])
	}
	return o
}

func eqBigs(a, b []*big.Int) bool {
	if len(a) != len(b) {
		return false
	}
	var cs []bool
	for i := range a {
		cs = append(cs, a[i].Cmp(b[i]) == 0)
	}
	return verif.And(cs...)
}

func eqHashes(a, b []common.Hash) bool {
	if len(a) != len(b) {
		return false
	}
	var cs []bool
	for i := range a {
		cs = append(cs, a[i] == b[i])
	}
	return verif.And(cs...)
}

func eqBools(a, b []bool) bool {
	if len(a) != len(b) {
		return false
	}
	var cs []bool
	for i := range a {
		cs = append(cs, a[i] == b[i])
	}
	return verif.And(cs...)
}

func eqU64s(a, b []uint64) bool {
	if len(a) != len(b) {
		return false
	}
	var cs []bool
	for i := range a {
		cs = append(cs, a[i] == b[i])
	}
	return verif.And(cs...)
}

func eqInts(a, b []int) bool {
	if len(a) != len(b) {
		return false
	}
	var cs []bool
	for i := range a {
		cs = append(cs, a[i] == b[i])
	}
	return verif.And(cs...)
}

func eqAddrs(a, b []common.Address) bool {
	if len(a) != len(b) {
		return false
	}
	var cs []bool
	for i := range a {
		cs = append(cs, a[i] == b[i])
	}
	return verif.And(cs...)
}

// AssertSameObs asserts field by field (one label per field family, so a failure names what leaked).
func AssertSameObs(pfx string, x, y *Obs) {
	verif.Assert(pfx+"balances", verif.And(eqBigs(x.Bal, y.Bal), eqBigs(x.BalO, y.BalO)))
	verif.Assert(pfx+"supply", verif.And(x.Supply.Cmp(y.Supply) == 0, x.SupplyO == nil || x.SupplyO.Cmp(y.SupplyO) == 0))
	verif.Assert(pfx+"nonces", eqU64s(x.Nonce, y.Nonce))
	verif.Assert(pfx+"code", verif.And(eqHashes(x.CodeHash, y.CodeHash), eqInts(x.CodeSize, y.CodeSize)))
	verif.Assert(pfx+"storage", verif.And(eqHashes(x.S1, y.S1), eqHashes(x.S2, y.S2)))
	verif.Assert(pfx+"committed-storage", eqHashes(x.C1, y.C1))
	verif.Assert(pfx+"transient-storage", verif.And(eqHashes(x.T1, y.T1), eqHashes(x.T2, y.T2), x.NTransient == y.NTransient))
	verif.Assert(pfx+"exist-empty", verif.And(eqBools(x.Exist, y.Exist), eqBools(x.Empty, y.Empty)))
	verif.Assert(pfx+"selfdestruct-marks", verif.And(eqBools(x.Sui, y.Sui), eqBools(x.SelfD, y.SelfD)))
	verif.Assert(pfx+"access-list", verif.And(eqBools(x.WarmA, y.WarmA), eqBools(x.WarmS1, y.WarmS1), eqBools(x.WarmS2, y.WarmS2)))
	verif.Assert(pfx+"touched", eqBools(x.Touched, y.Touched))
	verif.Assert(pfx+"refund", x.Refund == y.Refund)
	verif.Assert(pfx+"logs", verif.And(x.NLogs == y.NLogs, eqAddrs(x.LogAddrs, y.LogAddrs)))
}

// ---- events ---------------------------------------------------------------------

// EventsEqual compares two event sequences attribute by attribute (order matters).
func EventsEqual(a, b sdk.Events) bool {
	if len(a) != len(b) {
		return false
	}
	var cs []bool
	for i := range a {
		if a[i].Type != b[i].Type || len(a[i].Attributes) != len(b[i].Attributes) {
			return false
		}
		for j := range a[i].Attributes {
			cs = append(cs, a[i].Attributes[j].Key == b[i].Attributes[j].Key, a[i].Attributes[j].Value == b[i].Attributes[j].Value)
		}
	}
	return verif.And(cs...)
}

func itoa(i int) string { return strconv.Itoa(i) }
