//go:build verif

package hsdb

import (
	"math/big"

	"github.com/ethereum/go-ethereum/common"

	"github.com/EscanBE/evermint/v12/zzverif/env"
	"github.com/EscanBE/evermint/v12/zzverif/model"
	"github.com/EscanBE/evermint/v12/zzverif/verif"
)

var allOps = []int{OpAddBalance, OpSubBalance, OpSetNonce, OpSetCode, OpSetState, OpSuicide, OpCreateAccount, OpAddLog,
	OpAddRefund, OpSubRefund, OpAddAddressToAccessList, OpAddSlotToAccessList, OpSetTransientState, OpKeeperWrite}

var plainKinds = []int{KNone, KBase}

// world2 builds two identical environments (same symbolic initial state) with a StateDB each.
type world struct {
	e   *env.Env
	sdb interface{}
}

func newWorld(accts []*Acct, rest []*big.Int) *env.Env {
	e := env.New("other")
	for i, a := range accts {
		Install(e, a, uint64(10+i))
	}
	setSuppliesWith(e, accts, rest)
	return e
}

// supplyRest draws the symbolic amount of coins held outside the harness accounts, per denomination.
func supplyRest() []*big.Int {
	r := []*big.Int{env.Amount("supplyRest.evm", 130), env.Amount("supplyRest.other", 130)}
	// somebody outside the harness holds coins too (keeps the supply entries from being deleted: fewer paths)
	verif.Assume(r[0].Sign() > 0 && r[1].Sign() > 0)
	return r
}

func setSuppliesWith(e *env.Env, accts []*Acct, rest []*big.Int) {
	for di, d := range e.Denoms {
		sum := new(big.Int).Set(rest[di])
		for _, a := range accts {
			if di == 0 {
				sum = new(big.Int).Add(sum, a.Bal)
			} else {
				sum = new(big.Int).Add(sum, a.BalO)
			}
		}
		e.SetSupply(d, sum)
	}
}

// H_C03_1_Erase: P; s=Snapshot(); Q; RevertToSnapshot(s)  ==  P
// for every operation kind Q (and optional prefix P), symbolic arguments, aliasing addresses.
// Run X performs P only; run Y performs P, snapshot, Q (which may panic), revert. Every
// observation through the StateDB, and the stores + events after commit, must be equal.
func H_C03_1_Erase() { eraseHarness(false, false, allOps, allOps) }

// journalOps are the operations whose effect lives in the StateDB's own revertible fields (not in the stores).
var journalOps = []int{OpAddLog, OpAddRefund, OpSubRefund, OpAddAddressToAccessList, OpAddSlotToAccessList, OpSetTransientState, OpSuicide}

// keepOps: one representative per mechanism for the keep (no revert) harness of the quick tier
var keepOps = []int{OpAddBalance, OpSetNonce, OpSetState, OpSuicide, OpCreateAccount, OpAddLog, OpAddRefund, OpAddSlotToAccessList, OpSetTransientState, OpKeeperWrite}

// H_C03_1a_EraseJournalPQ: a prefix operation P before the snapshot, both drawn from the journal operations
// (quick tier: catches state shared between the live StateDB and its snapshot copies).
func H_C03_1a_EraseJournalPQ() { eraseHarness(true, false, journalOps, journalOps) }

// thorough tier: any prefix operation P before the snapshot / two operations inside the reverted frame.
// (all 14 x 14 pairs are 105,000 paths and 15 minutes for one harness and ran into the decision bound: the thorough
// tier draws one of the two operations from keepOps - one representative per mechanism - and the other from all.)
func H_C03_1b_ErasePQ() { eraseHarness(true, false, keepOps, allOps) }
func H_C03_1c_EraseQQ() { eraseHarness(false, true, allOps, keepOps) }

func eraseHarness(withP, withQ2 bool, pOps, qOps []int) {
	// the one-operation variant explores richer initial accounts; the two-operation variants keep them plain
	rich := !withP && !withQ2
	a := NewAcct("a", plainKinds, rich, rich, false)
	b := NewAcct("b", plainKinds, false, false, false)
	accts := []*Acct{a, b}
	verif.Assume(a.Addr != b.Addr)
	addrs := []common.Address{a.Addr, b.Addr}
	var p *Op
	if withP {
		p = NewOp("P", pOps, addrs)
	}
	q := NewOp("Q", qOps, addrs)
	var q2 *Op
	if withQ2 {
		q2 = NewOp("Q2", qOps, addrs)
	}

	rest := supplyRest()
	ex, ey := newWorld(accts, rest), newWorld(accts, rest)
	x := ex.NewStateDB(ex.Ctx, common.Address{})
	y := ey.NewStateDB(ey.Ctx, common.Address{})
	if p != nil {
		px := verif.Try(func() { p.Apply(ex, x) })
		py := verif.Try(func() { p.Apply(ey, y) })
		verif.Assert("prefix-same-outcome", px == py)
		if px || py {
			return // a panic in P aborts the whole transaction in the real system
		}
	}
	s := y.Snapshot()
	verif.Try(func() {
		q.Apply(ey, y)
		if q2 != nil {
			q2.Apply(ey, y)
		}
	})
	y.RevertToSnapshot(s)

	ox, oy := Observe(ex, x, addrs), Observe(ey, y, addrs)
	AssertSameObs("revert-erases-", ox, oy)

	cx := verif.Try(func() { _ = x.CommitMultiStore(true) })
	cy := verif.Try(func() { _ = y.CommitMultiStore(true) })
	verif.Assert("commit-same-outcome", cx == cy)
	if cx || cy {
		return
	}
	verif.Assert("committed-stores-equal", model.SameContent(ex.MS, ey.MS))
	verif.Assert("committed-events-equal", EventsEqual(ex.Ctx.EventManager().Events(), ey.Ctx.EventManager().Events()))
}

// H_C03_2_Nesting: a=Snapshot(); Q1; b=Snapshot(); Q2; Revert(b)  ==  a=Snapshot(); Q1   and then Revert(a) == nothing.
// Also: reverting to a invalidates b (go-ethereum's rule): a later RevertToSnapshot(b) must not silently succeed
// with stale content - it panics (index out of range / id mismatch).
func H_C03_2_Nesting() {
	a := NewAcct("a", plainKinds, false, false, false)
	b := NewAcct("b", plainKinds, false, false, false)
	accts := []*Acct{a, b}
	verif.Assume(a.Addr != b.Addr)
	addrs := []common.Address{a.Addr, b.Addr}
	q1 := NewOp("Q1", keepOps, addrs)
	q2 := NewOp("Q2", allOps, addrs)

	rest := supplyRest()
	ex, ey, ez := newWorld(accts, rest), newWorld(accts, rest), newWorld(accts, rest)
	x := ex.NewStateDB(ex.Ctx, common.Address{})
	y := ey.NewStateDB(ey.Ctx, common.Address{})
	z := ez.NewStateDB(ez.Ctx, common.Address{})

	// X: snapshot, Q1
	sx := x.Snapshot()
	px := verif.Try(func() { q1.Apply(ex, x) })
	// Y: snapshot, Q1, snapshot, Q2, revert inner
	sya := y.Snapshot()
	py := verif.Try(func() { q1.Apply(ey, y) })
	verif.Assert("q1-same-outcome", px == py)
	verif.Assert("snapshot-ids-equal", sx == sya)
	if px || py {
		return
	}
	syb := y.Snapshot()
	verif.Assert("snapshot-ids-increase", syb == sya+1)
	verif.Try(func() { q2.Apply(ey, y) })
	y.RevertToSnapshot(syb)
	AssertSameObs("inner-revert-", Observe(ex, x, addrs), Observe(ey, y, addrs))

	// outer revert restores the pristine state (Z)
	y.RevertToSnapshot(sya)
	AssertSameObs("outer-revert-", Observe(ez, z, addrs), Observe(ey, y, addrs))
	stale := verif.Try(func() { y.RevertToSnapshot(syb) })
	verif.Assert("stale-snapshot-id-rejected", stale)

	cz := verif.Try(func() { _ = z.CommitMultiStore(true) })
	cy := verif.Try(func() { _ = y.CommitMultiStore(true) })
	verif.Assert("commit-same-outcome", cz == cy)
	if cz || cy {
		return
	}
	verif.Assert("committed-stores-equal", model.SameContent(ez.MS, ey.MS))
	verif.Assert("committed-events-equal", EventsEqual(ez.Ctx.EventManager().Events(), ey.Ctx.EventManager().Events()))
}

// H_C03_3_Keep: Snapshot(); Q (no revert)  ==  Q : effects of frames that completed are all kept,
// observed before and after CommitMultiStore in the original context.
func H_C03_3_Keep() {
	a := NewAcct("a", plainKinds, false, false, false)
	b := NewAcct("b", plainKinds, false, false, false)
	accts := []*Acct{a, b}
	verif.Assume(a.Addr != b.Addr)
	addrs := []common.Address{a.Addr, b.Addr}
	q := NewOp("Q", keepOps, addrs)
	nsnap := 1 + verif.Choice("extraSnapshots", 2)

	rest := supplyRest()
	ex, ey := newWorld(accts, rest), newWorld(accts, rest)
	x := ex.NewStateDB(ex.Ctx, common.Address{})
	y := ey.NewStateDB(ey.Ctx, common.Address{})
	px := verif.Try(func() { q.Apply(ex, x) })
	for i := 0; i < nsnap; i++ {
		y.Snapshot()
	}
	py := verif.Try(func() { q.Apply(ey, y) })
	y.Snapshot()
	verif.Assert("same-outcome", px == py)
	if px || py {
		return
	}
	AssertSameObs("kept-", Observe(ex, x, addrs), Observe(ey, y, addrs))
	cx := verif.Try(func() { _ = x.CommitMultiStore(true) })
	cy := verif.Try(func() { _ = y.CommitMultiStore(true) })
	verif.Assert("commit-same-outcome", cx == cy)
	if cx || cy {
		return
	}
	verif.Assert("committed-stores-equal", model.SameContent(ex.MS, ey.MS))
	verif.Assert("committed-events-equal", EventsEqual(ex.Ctx.EventManager().Events(), ey.Ctx.EventManager().Events()))
}

// H_C08_1_StateDBIsolation: without CommitMultiStore nothing a StateDB does - any of the 14 operations,
// optionally bracketed by snapshot / revert - reaches the stores or the event manager of the context it was
// created from.
func H_C08_1_StateDBIsolation() {
	a := NewAcct("a", plainKinds, true, true, false)
	b := NewAcct("b", plainKinds, false, false, false)
	accts := []*Acct{a, b}
	verif.Assume(a.Addr != b.Addr)
	addrs := []common.Address{a.Addr, b.Addr}
	q := NewOp("Q", allOps, addrs)
	e := newWorld(accts, supplyRest())
	before := e.MS.Snapshot()
	events0 := len(e.Ctx.EventManager().Events())
	sdb := e.NewStateDB(e.Ctx, common.Address{})
	bracket := verif.Choice("bracket", 3) // none, snapshot (kept), snapshot + revert
	s := 0
	if bracket > 0 {
		s = sdb.Snapshot()
	}
	verif.Try(func() { q.Apply(e, sdb) })
	if bracket == 2 {
		sdb.RevertToSnapshot(s)
	}
	verif.Assert("uncommitted-statedb-leaves-original-stores", model.SameContent(before, e.MS))
	verif.Assert("uncommitted-statedb-emits-nothing-to-original-context", len(e.Ctx.EventManager().Events()) == events0)
}
