//go:build verif

// Package hidx holds the harness for the transaction indexer kernel (indexer.KVIndexer).
package hidx

import (
	abci "github.com/cometbft/cometbft/abci/types"
	cmttypes "github.com/cometbft/cometbft/types"
	sdkdb "github.com/cosmos/cosmos-db"
	"github.com/cosmos/cosmos-sdk/client"
	"github.com/cosmos/cosmos-sdk/codec"
	sdk "github.com/cosmos/cosmos-sdk/types"
	txsigning "cosmossdk.io/x/tx/signing"
	banktypes "github.com/cosmos/cosmos-sdk/x/bank/types"
	"github.com/ethereum/go-ethereum/common"
	ethtypes "github.com/ethereum/go-ethereum/core/types"
	protov2 "google.golang.org/protobuf/proto"

	"github.com/EscanBE/evermint/v12/indexer"
	evmtypes "github.com/EscanBE/evermint/v12/x/evm/types"
	"github.com/EscanBE/evermint/v12/zzverif/model"
	"github.com/EscanBE/evermint/v12/zzverif/verif"
)

type hTx struct{ msgs []sdk.Msg }

func (t *hTx) GetMsgs() []sdk.Msg                    { return t.msgs }
func (t *hTx) GetMsgsV2() ([]protov2.Message, error) { return nil, nil }

// txConfig decodes the opaque transaction bytes of the harness block (the real decoder is protobuf).
type txConfig struct{ byBytes map[string]sdk.Tx }

func (c *txConfig) TxEncoder() sdk.TxEncoder         { panic("not used") }
func (c *txConfig) TxJSONEncoder() sdk.TxEncoder     { panic("not used") }
func (c *txConfig) TxJSONDecoder() sdk.TxDecoder     { panic("not used") }
func (c *txConfig) NewTxBuilder() client.TxBuilder   { panic("not used") }
func (c *txConfig) WrapTxBuilder(sdk.Tx) (client.TxBuilder, error) { panic("not used") }
func (c *txConfig) SignModeHandler() *txsigning.HandlerMap         { panic("not used") }
func (c *txConfig) SigningContext() *txsigning.Context             { panic("not used") }
func (c *txConfig) MarshalSignatureJSON(_ []signingtypesSignatureV2) ([]byte, error) { panic("not used") }
func (c *txConfig) UnmarshalSignatureJSON(_ []byte) ([]signingtypesSignatureV2, error) { panic("not used") }
func (c *txConfig) TxDecoder() sdk.TxDecoder {
	return func(bz []byte) (sdk.Tx, error) {
		tx, ok := c.byBytes[string(bz)]
		if !ok {
			return nil, errUndecodable
		}
		return tx, nil
	}
}

type hErr string

func (e hErr) Error() string { return string(e) }

var errUndecodable = hErr("tx parse error")

// transaction kinds / outcomes of the symbolic block
const (
	kUndecodable = iota
	kCosmos
	kEthDroppedPreAnte // never reached the ante handler (block gas exhausted before): non-zero code, no events
	kEthFailedAfterAnte // passed the ante handler (ethereum_tx event), execution discarded: non-zero code
	kEthVmError         // executed with a VM error: code 0, ethereum_tx + tx_receipt(error)
	kEthSuccess
	nKinds
)

func ethEvent(hash common.Hash, idx int) abci.Event {
	return abci.Event{Type: evmtypes.EventTypeEthereumTx, Attributes: []abci.EventAttribute{
		{Key: evmtypes.AttributeKeyEthereumTxHash, Value: hash.Hex()}, {Key: evmtypes.AttributeKeyTxIndex, Value: itoa(idx)}}}
}

func receiptEvent(hash common.Hash, idx int, vmErr bool) abci.Event {
	ev := abci.Event{Type: evmtypes.EventTypeTxReceipt, Attributes: []abci.EventAttribute{
		{Key: evmtypes.AttributeKeyReceiptEvmTxHash, Value: hash.Hex()}, {Key: evmtypes.AttributeKeyReceiptTxIndex, Value: itoa(idx)}}}
	if vmErr {
		ev.Attributes = append(ev.Attributes, abci.EventAttribute{Key: evmtypes.AttributeKeyReceiptVmError, Value: "execution reverted"})
	}
	return ev
}

type expect struct {
	hash     common.Hash
	blockPos int
	ethIdx   int
	failed   bool
}

// mkBlock draws a symbolic block of n transactions and the consensus results the application would produce.
func mkBlock(cfg *txConfig, height int64, n int, pfx string) (*cmttypes.Block, []*abci.ExecTxResult, []expect) {
	blk := &cmttypes.Block{Header: cmttypes.Header{Height: height}}
	var results []*abci.ExecTxResult
	var want []expect
	ethIdx := 0
	for i := 0; i < n; i++ {
		raw := []byte{0xfd, 'B', byte(height), byte(i)}
		kind := verif.Choice(pfx+".tx"+itoa(i)+".kind", nKinds)
		res := &abci.ExecTxResult{}
		switch kind {
		case kUndecodable:
			res.Code = 2
		case kCosmos:
			cfg.byBytes[string(raw)] = &hTx{msgs: []sdk.Msg{&banktypes.MsgSend{}}}
		default:
			handle := []byte{0xfd, 'T', byte(height), byte(i)}
			hash := common.BytesToHash([]byte{0xee, byte(height), byte(i)})
			if verif.Symbolic() {
				ethTx := ethtypes.NewTx(&ethtypes.LegacyTx{Nonce: uint64(i), Gas: 21000})
				model.RegisterTx(handle, &model.TxInfo{Tx: ethTx, Hash: hash})
			} else {
				handle, hash = nativeEthTxBytes(uint64(height)*100 + uint64(i))
			}
			cfg.byBytes[string(raw)] = &hTx{msgs: []sdk.Msg{&evmtypes.MsgEthereumTx{MarshalledTx: handle}}}
			switch kind {
			case kEthDroppedPreAnte:
				res.Code = 11
			case kEthFailedAfterAnte:
				res.Code = 11
				res.Events = []abci.Event{ethEvent(hash, ethIdx)}
				want = append(want, expect{hash, i, ethIdx, true})
				ethIdx++
			case kEthVmError:
				res.Events = []abci.Event{ethEvent(hash, ethIdx), receiptEvent(hash, ethIdx, true)}
				want = append(want, expect{hash, i, ethIdx, true})
				ethIdx++
			case kEthSuccess:
				res.Events = []abci.Event{ethEvent(hash, ethIdx), receiptEvent(hash, ethIdx, false)}
				want = append(want, expect{hash, i, ethIdx, false})
				ethIdx++
			}
		}
		blk.Data.Txs = append(blk.Data.Txs, raw)
		results = append(results, res)
	}
	return blk, results, want
}

func newIndexer(cfg *txConfig) (*indexer.KVIndexer, sdkdb.DB) {
	var db sdkdb.DB
	if verif.Symbolic() {
		db = model.NewDB()
	} else {
		db = sdkdb.NewMemDB()
	}
	ctx := client.Context{}.WithTxConfig(cfg).WithCodec(harnessCodec())
	return indexer.NewKVIndexer(db, model.NopLogger{}, ctx), db
}

func harnessCodec() codec.Codec {
	if verif.Symbolic() {
		return &codec.ProtoCodec{} // its methods are replaced by the inverse-pair codec model
	}
	return nativeCodec()
}

func dump(db sdkdb.DB) (keys, vals [][]byte) {
	it, err := db.Iterator(nil, nil)
	if err != nil {
		panic(err)
	}
	for ; it.Valid(); it.Next() {
		keys = append(keys, append([]byte(nil), it.Key()...))
		vals = append(vals, append([]byte(nil), it.Value()...))
	}
	return
}

func sameDump(k1, v1, k2, v2 [][]byte) bool {
	if len(k1) != len(k2) {
		return false
	}
	for i := range k1 {
		if string(k1[i]) != string(k2[i]) || string(v1[i]) != string(v2[i]) {
			return false
		}
	}
	return true
}

// H_C14_1_IndexKernel: the real KVIndexer.IndexBlock / GetByTxHash / GetByBlockAndIndex / LastIndexedBlock over
// a symbolic block of up to 3 transactions of 6 kinds (undecodable, Cosmos, Ethereum dropped before the ante
// handler, Ethereum failed after the ante handler, Ethereum with VM error, Ethereum success) with the events the
// application emits: every Ethereum transaction that reached the ante handler is found by hash and by
// (height, index), both lookups agree, indices are 0,1,.. in block order over exactly those transactions, the
// block position and the failed flag are right, nothing else is indexed, unknown hashes / out-of-range indices
// give errors, and indexing the block again (also after a later block) changes nothing.
func H_C14_1_IndexKernel() {
	model.ResetTxs()
	cfg := &txConfig{byBytes: map[string]sdk.Tx{}}
	kv, db := newIndexer(cfg)
	n := 1 + verif.Choice("nTxs", 3)
	blk, results, want := mkBlock(cfg, 7, n, "b7")
	err := kv.IndexBlock(blk, results)
	verif.Assert("index-block-succeeds", err == nil)
	for _, w := range want {
		byHash, e1 := kv.GetByTxHash(w.hash)
		byIdx, e2 := kv.GetByBlockAndIndex(7, int32(w.ethIdx))
		verif.Assert("found-by-hash-and-by-index", e1 == nil && e2 == nil)
		if e1 != nil || e2 != nil {
			return
		}
		verif.Assert("lookups-agree", *byHash == *byIdx)
		verif.Assert("eth-index-is-position-among-eth-txs-that-reached-ante", byHash.EthTxIndex == int32(w.ethIdx))
		verif.Assert("block-position-recorded", byHash.TxIndex == uint32(w.blockPos) && byHash.Height == 7)
		verif.Assert("failed-flag-matches-outcome", byHash.Failed == w.failed)
	}
	_, eOut := kv.GetByBlockAndIndex(7, int32(len(want)))
	verif.Assert("out-of-range-index-is-an-error", eOut != nil)
	_, eUnk := kv.GetByTxHash(common.BytesToHash([]byte{0x99}))
	verif.Assert("unknown-hash-is-an-error", eUnk != nil)
	keys, vals := dump(db)
	verif.Assert("exactly-two-entries-per-indexed-tx", len(keys) == 2*len(want))
	last, eL := kv.LastIndexedBlock()
	if len(want) > 0 {
		verif.Assert("last-indexed-block", eL == nil && last == 7)
		verif.Reach("some-eth-tx-indexed")
	} else {
		verif.Assert("empty-index-reports-minus-one", eL == nil && last == -1)
	}
	// idempotence
	verif.Assert("reindex-succeeds", kv.IndexBlock(blk, results) == nil)
	k2, v2 := dump(db)
	verif.Assert("indexing-a-block-again-changes-nothing", sameDump(keys, vals, k2, v2))
	if verif.Bool("withLaterBlock") {
		blk8, res8, want8 := mkBlock(cfg, 8, 1, "b8")
		verif.Assert("index-next-block-succeeds", kv.IndexBlock(blk8, res8) == nil)
		k3, v3 := dump(db)
		verif.Assert("reindex-earlier-block-succeeds", kv.IndexBlock(blk, results) == nil)
		k4, v4 := dump(db)
		verif.Assert("reindexing-an-earlier-block-changes-nothing", sameDump(k3, v3, k4, v4))
		last2, _ := kv.LastIndexedBlock()
		if len(want8) > 0 {
			verif.Assert("last-indexed-block-is-max-height", last2 == 8)
		}
	}
}
