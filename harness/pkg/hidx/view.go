//go:build verif

package hidx

import (
	"github.com/cosmos/cosmos-sdk/client"
	"math/big"

	abci "github.com/cometbft/cometbft/abci/types"
	cmttypes "github.com/cometbft/cometbft/types"
	sdkdb "github.com/cosmos/cosmos-db"
	sdk "github.com/cosmos/cosmos-sdk/types"
	banktypes "github.com/cosmos/cosmos-sdk/x/bank/types"
	"github.com/ethereum/go-ethereum/common"
	ethtypes "github.com/ethereum/go-ethereum/core/types"
	ethcrypto "github.com/ethereum/go-ethereum/crypto"

	"github.com/EscanBE/evermint/v12/indexer"
	evmtypes "github.com/EscanBE/evermint/v12/x/evm/types"
	"github.com/EscanBE/evermint/v12/zzverif/model"
	"github.com/EscanBE/evermint/v12/zzverif/verif"
)

// ---- exported pieces for the JSON-RPC view harness (package rpc/backend) ---------------------------------

type TxConfig = txConfig

func NewTxConfig() *TxConfig { return &txConfig{byBytes: map[string]sdk.Tx{}} }

func NewIndexer(cfg *TxConfig) (*indexer.KVIndexer, sdkdb.DB) { return newIndexer(cfg) }

// ViewTx is what consensus produced for one Ethereum transaction that reached the ante handler.
type ViewTx struct {
	Hash       common.Hash
	From       common.Address
	BlockPos   int
	EthIdx     int
	HasReceipt bool // false: passed the ante handler, then discarded (block gas): no tx_receipt event
	GasLimit   uint64
	GasUsed    uint64 // consensus gas used (the gas limit for a discarded execution)
	Cumulative uint64 // consensus cumulative gas: running sum over the Ethereum txs that reached the ante handler
	Status     uint64
	NLogs      int
	FirstLog   uint
}

// Sender is the signer of every harness transaction (native replay: key 0x..01).
var Sender = common.HexToAddress("0x7E5F4552091A69125d5DfCb7b8C2659029395Bdf")

const ViewChainID = 90909

func nativeEthTx(nonce, gas uint64) ([]byte, common.Hash) {
	prv, err := ethcrypto.HexToECDSA("0000000000000000000000000000000000000000000000000000000000000001")
	if err != nil {
		panic(err)
	}
	tx, err := ethtypes.SignNewTx(prv, ethtypes.LatestSignerForChainID(big.NewInt(ViewChainID)), &ethtypes.LegacyTx{Nonce: nonce, Gas: gas, GasPrice: big.NewInt(1)})
	if err != nil {
		panic(err)
	}
	bz, err := tx.MarshalBinary()
	if err != nil {
		panic(err)
	}
	return bz, tx.Hash()
}

// MkViewBlock draws a symbolic block of n transactions of the 6 kinds of mkBlock with symbolic gas limits and
// gas-used figures, and the consensus results the application produces for it: the ethereum_tx event of the ante
// handler and the tx_receipt event built by the real evmtypes.GetSdkEventForReceipt from the consensus receipt
// (transaction index among Ethereum txs, cumulative gas = running sum, block-wide log indices).
// DroppedHashes are the hashes of the Ethereum txs that never reached the ante handler.
func MkViewBlock(cfg *TxConfig, height int64, n int) (blk *cmttypes.Block, results []*abci.ExecTxResult, want []ViewTx, dropped []common.Hash) {
	blk = &cmttypes.Block{Header: cmttypes.Header{Height: height}}
	ethIdx := 0
	cumulative := uint64(0)
	nextLog := uint(0)
	for i := 0; i < n; i++ {
		pfx := "tx" + itoa(i)
		raw := []byte{0xfd, 'B', byte(height), byte(i)}
		kind := verif.Choice(pfx+".kind", nKinds)
		res := &abci.ExecTxResult{}
		switch kind {
		case kUndecodable:
			res.Code = 2
		case kCosmos:
			cfg.byBytes[string(raw)] = &hTx{msgs: []sdk.Msg{&banktypes.MsgSend{}}}
			res.GasUsed = 77777
		default:
			gasLimit := verif.Uint64(pfx + ".gasLimit")
			verif.Assume(gasLimit >= 21000 && gasLimit < 1<<32)
			handle := []byte{0xfd, 'T', byte(height), byte(i)}
			hash := common.BytesToHash([]byte{0xee, byte(height), byte(i)})
			if verif.Symbolic() {
				ethTx := ethtypes.NewTx(&ethtypes.LegacyTx{Nonce: uint64(i), Gas: gasLimit, GasPrice: big.NewInt(1)})
				model.RegisterTx(handle, &model.TxInfo{Tx: ethTx, Hash: hash, Signer: Sender})
			} else {
				handle, hash = nativeEthTx(uint64(height)*100+uint64(i), gasLimit)
			}
			msg := &evmtypes.MsgEthereumTx{MarshalledTx: handle, From: sdk.AccAddress(Sender.Bytes()).String()}
			cfg.byBytes[string(raw)] = &hTx{msgs: []sdk.Msg{msg}}
			if kind == kEthDroppedPreAnte {
				res.Code = 11
				dropped = append(dropped, hash)
				break
			}
			w := ViewTx{Hash: hash, From: Sender, BlockPos: i, EthIdx: ethIdx, GasLimit: gasLimit}
			res.Events = []abci.Event{ethEvent(hash, ethIdx)}
			if kind == kEthFailedAfterAnte {
				res.Code = 11
				w.GasUsed = gasLimit
				w.Status = ethtypes.ReceiptStatusFailed
			} else {
				w.HasReceipt = true
				w.GasUsed = verif.Uint64(pfx + ".gasUsed")
				verif.Assume(w.GasUsed >= 21000 && w.GasUsed <= gasLimit)
				if kind == kEthSuccess {
					w.Status = ethtypes.ReceiptStatusSuccessful
					w.NLogs = verif.Choice(pfx+".nLogs", 3)
					w.FirstLog = nextLog
				} else {
					w.Status = ethtypes.ReceiptStatusFailed
				}
			}
			cumulative += w.GasUsed
			w.Cumulative = cumulative
			if w.HasReceipt {
				rc := &ethtypes.Receipt{Type: ethtypes.LegacyTxType, Status: w.Status, CumulativeGasUsed: w.Cumulative, TxHash: hash,
					GasUsed: w.GasUsed, BlockNumber: big.NewInt(height), TransactionIndex: uint(ethIdx)}
				for k := 0; k < w.NLogs; k++ {
					rc.Logs = append(rc.Logs, &ethtypes.Log{Address: common.BytesToAddress([]byte{0xc0, byte(i)}), Topics: []common.Hash{common.BytesToHash([]byte{byte(k + 1)})},
						BlockNumber: uint64(height), TxHash: hash, TxIndex: uint(ethIdx), Index: nextLog})
					nextLog++
				}
				rc.Bloom = ethtypes.CreateBloom(ethtypes.Receipts{rc})
				var vmErr error
				if w.Status == ethtypes.ReceiptStatusFailed {
					vmErr = hErr("execution reverted")
				}
				ev, err := evmtypes.GetSdkEventForReceipt(rc, big.NewInt(1), vmErr, nil)
				if err != nil {
					panic(err)
				}
				res.Events = append(res.Events, abci.Event(ev))
			}
			res.GasUsed = int64(w.GasUsed)
			want = append(want, w)
			ethIdx++
		}
		blk.Data.Txs = append(blk.Data.Txs, raw)
		results = append(results, res)
	}
	return
}

// MkBlock / Dump / SameDump: exported for the indexer-service harness (package server).
func MkBlock(cfg *TxConfig, height int64, n int, pfx string) (*cmttypes.Block, []*abci.ExecTxResult, int) {
	blk, res, want := mkBlock(cfg, height, n, pfx)
	return blk, res, len(want)
}

func Dump(db sdkdb.DB) (keys, vals [][]byte) { return dump(db) }

func SameDump(k1, v1, k2, v2 [][]byte) bool { return sameDump(k1, v1, k2, v2) }

// NewIndexerOn opens an indexer over an existing database (a restarted process).
func NewIndexerOn(cfg *TxConfig, db sdkdb.DB) *indexer.KVIndexer {
	ctx := client.Context{}.WithTxConfig(cfg).WithCodec(harnessCodec())
	return indexer.NewKVIndexer(db, model.NopLogger{}, ctx)
}
