//go:build verif

package hidx

import (
	"math/big"
	"strconv"

	"github.com/cosmos/cosmos-sdk/codec"
	codectypes "github.com/cosmos/cosmos-sdk/codec/types"
	signingtypes "github.com/cosmos/cosmos-sdk/types/tx/signing"
	"github.com/ethereum/go-ethereum/common"
	ethtypes "github.com/ethereum/go-ethereum/core/types"
	ethcrypto "github.com/ethereum/go-ethereum/crypto"
)

type signingtypesSignatureV2 = signingtypes.SignatureV2

func itoa(i int) string { return strconv.Itoa(i) }

func nativeCodec() codec.Codec { return codec.NewProtoCodec(codectypes.NewInterfaceRegistry()) }

// nativeEthTxBytes builds a really signed transaction (native replay): its RLP bytes and hash.
func nativeEthTxBytes(nonce uint64) ([]byte, common.Hash) {
	prv, err := ethcrypto.HexToECDSA("0000000000000000000000000000000000000000000000000000000000000001")
	if err != nil {
		panic(err)
	}
	tx, err := ethtypes.SignNewTx(prv, ethtypes.LatestSignerForChainID(big.NewInt(90909)), &ethtypes.LegacyTx{Nonce: nonce, Gas: 21000, GasPrice: big.NewInt(1)})
	if err != nil {
		panic(err)
	}
	bz, err := tx.MarshalBinary()
	if err != nil {
		panic(err)
	}
	return bz, tx.Hash()
}
