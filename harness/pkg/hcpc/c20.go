//go:build verif

package hcpc

import (
	"math/big"

	ethtypes "github.com/ethereum/go-ethereum/core/types"
	corevm "github.com/ethereum/go-ethereum/core/vm"

	cpctypes "github.com/EscanBE/evermint/v12/x/cpc/types"
	"github.com/EscanBE/evermint/v12/zzverif/verif"
)

// H_C20_2_PrecompileDispatch: arbitrary call data of 0..6 symbolic bytes sent to a registered custom precompile
// (ERC-20 or staking) through the fork's real EVM.Call / StaticCall -> RunPrecompiledContract -> RequiredGas ->
// RunCustom -> the repo's wrapper: the call returns (an error or data), it never panics - the wrapper's
// "invalid call input" / "mis-match signature" panics and out-of-range slicing are unreachable. A selector of an
// existing method followed by undecodable arguments is an error, not a panic.
func H_C20_2_PrecompileDispatch() {
	w := newWorld()
	e := w.e
	stakingAddr, err := e.CK.DeployStakingCustomPrecompiledContract(e.Ctx, cpctypes.StakingCustomPrecompiledContractMeta{Symbol: "STK", Decimals: 18})
	if err != nil {
		panic(err)
	}
	target := w.contract
	if verif.Bool("stakingContract") {
		target = stakingAddr
	}
	n := verif.Choice("inputLen", 7)
	input := make([]byte, n)
	verif.Fill("input", input)
	if n >= 4 && verif.Bool("knownSelector") {
		copy(input, sel["transfer"])
	}
	sdb := e.NewStateDB(e.Ctx, Coinbase)
	ctx := sdb.GetCurrentContext()
	msg := ethtypes.NewMessage(X1, &target, 0, big.NewInt(0), 1_000_000, big.NewInt(0), big.NewInt(0), big.NewInt(0), input, nil, true)
	evm := e.EK.NewEVM(ctx, msg, e.EVMConfig(ctx, Coinbase, big.NewInt(0)), nil, sdb)
	gas := verif.Uint64("gas")
	static := verif.Bool("static")
	var cerr error
	panicked := verif.Try(func() {
		if static {
			_, _, cerr = evm.StaticCall(corevm.AccountRef(X1), target, input, gas)
		} else {
			_, _, cerr = evm.Call(corevm.AccountRef(X1), target, input, gas, big.NewInt(0))
		}
	})
	verif.Note("panic", verif.PanicMsg())
	verif.Assert("precompile-dispatch-never-panics", !panicked)
	if n < 4 {
		verif.Assert("short-input-is-rejected", cerr != nil)
		verif.Reach("short-input")
	}
}
