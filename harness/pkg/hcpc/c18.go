//go:build verif

package hcpc

import (
	"math/big"

	sdkmath "cosmossdk.io/math"
	storetypes "cosmossdk.io/store/types"
	sdk "github.com/cosmos/cosmos-sdk/types"
	authtypes "github.com/cosmos/cosmos-sdk/x/auth/types"
	paramstypes "github.com/cosmos/cosmos-sdk/x/params/types"
	stakingkeeper "github.com/cosmos/cosmos-sdk/x/staking/keeper"
	"github.com/ethereum/go-ethereum/common"
	ethcrypto "github.com/ethereum/go-ethereum/crypto"

	"github.com/EscanBE/evermint/v12/x/cpc"
	cpctypes "github.com/EscanBE/evermint/v12/x/cpc/types"
	"github.com/EscanBE/evermint/v12/x/evm"
	evmtypes "github.com/EscanBE/evermint/v12/x/evm/types"
	"github.com/EscanBE/evermint/v12/x/feemarket"
	feemarketkeeper "github.com/EscanBE/evermint/v12/x/feemarket/keeper"
	feemarkettypes "github.com/EscanBE/evermint/v12/x/feemarket/types"
	"github.com/EscanBE/evermint/v12/zzverif/env"
	"github.com/EscanBE/evermint/v12/zzverif/model"
	"github.com/EscanBE/evermint/v12/zzverif/verif"
)

var (
	codeA = []byte{0x60, 0x00, 0x60, 0x00, 0xf3}
	codeB = []byte{0x60, 0x01, 0x60, 0x00, 0xf3, 0x00}
	slotK = []common.Hash{common.BytesToHash([]byte{1}), common.BytesToHash([]byte{2})}
)

func mkAcc(e *env.Env, a common.Address, num uint64) {
	e.AK.SetAccount(e.Ctx, &authtypes.BaseAccount{Address: sdk.AccAddress(a[:]).String(), AccountNumber: num, Sequence: 1})
}

// H_C18_1_Evm: contracts with code and storage (symbolic slot values incl. absent slots, two code variants, an
// account with storage but no code) -> real evm.ExportGenesis -> a fresh chain whose auth accounts exist ->
// real evm.InitGenesis: code, code hash, storage of every contract and the params are reproduced, and a second
// export equals the first.
func H_C18_1_Evm() {
	e1 := env.New()
	contracts := []common.Address{X1, X2}
	type cstate struct {
		code  []byte
		slots [2]common.Hash
	}
	var st []cstate
	for i, a := range contracts {
		mkAcc(e1, a, uint64(10+i))
		c := cstate{code: codeA}
		if verif.Bool("c" + string(rune('0'+i)) + ".codeB") {
			c.code = codeB
		}
		h := ethcrypto.Keccak256Hash(c.code)
		e1.EK.SetCode(e1.Ctx, h.Bytes(), c.code)
		e1.EK.SetCodeHash(e1.Ctx, a, h)
		for k := 0; k < 2; k++ {
			name := "c" + string(rune('0'+i)) + ".slot" + string(rune('0'+k))
			switch verif.Choice(name, 3) {
			case 1: // a slot holding a non-zero value
				v := verif.Uint8(name + ".val")
				verif.Assume(v != 0)
				c.slots[k] = common.BytesToHash([]byte{v})
				e1.EK.SetState(e1.Ctx, a, slotK[k], c.slots[k].Bytes())
			case 2: // a slot that was written and later cleared at run time: SSTORE(key, 0) keeps a 32-byte zero entry
				e1.EK.SetState(e1.Ctx, a, slotK[k], common.Hash{}.Bytes())
			}
		}
		st = append(st, c)
	}
	// an externally owned account with neither code nor storage
	mkAcc(e1, X3, 12)
	params := e1.EK.GetParams(e1.Ctx)

	gs := evm.ExportGenesis(e1.Ctx, e1.EK)
	verif.Assert("export-lists-every-contract", len(gs.Accounts) == len(contracts))

	e2 := env.New()
	for i, a := range contracts {
		mkAcc(e2, a, uint64(10+i))
	}
	mkAcc(e2, X3, 12)
	panicked := verif.Try(func() { evm.InitGenesis(e2.Ctx, e2.EK, e2.AK, *gs) })
	verif.Assert("import-of-own-export-succeeds", !panicked)
	if panicked {
		return
	}
	for i, a := range contracts {
		verif.Assert("code-hash-reproduced", e2.EK.GetCodeHash(e2.Ctx, a[:]) == ethcrypto.Keccak256Hash(st[i].code))
		verif.Assert("code-reproduced", string(e2.EK.GetCode(e2.Ctx, e2.EK.GetCodeHash(e2.Ctx, a[:]))) == string(st[i].code))
		for k := 0; k < 2; k++ {
			verif.Assert("storage-reproduced", e2.EK.GetState(e2.Ctx, a, slotK[k]) == st[i].slots[k])
		}
	}
	verif.Assert("evm-store-content-equal", model.SameKV(e1.MS.KV(env.EvmKey), e2.MS.KV(env.EvmKey)))
	p2 := e2.EK.GetParams(e2.Ctx)
	verif.Assert("params-reproduced", p2.EvmDenom == params.EvmDenom && p2.EnableCreate == params.EnableCreate && p2.EnableCall == params.EnableCall)
	gs2 := evm.ExportGenesis(e2.Ctx, e2.EK)
	same := len(gs2.Accounts) == len(gs.Accounts)
	if same {
		for i := range gs.Accounts {
			same = same && gs.Accounts[i].Address == gs2.Accounts[i].Address && gs.Accounts[i].Code == gs2.Accounts[i].Code && len(gs.Accounts[i].Storage) == len(gs2.Accounts[i].Storage)
			if same {
				for k := range gs.Accounts[i].Storage {
					same = same && gs.Accounts[i].Storage[k].Key == gs2.Accounts[i].Storage[k].Key && verif.And(gs.Accounts[i].Storage[k].Value == gs2.Accounts[i].Storage[k].Value)
				}
			}
		}
	}
	verif.Assert("second-export-equals-first", same)
}

var (
	fmKey  = storetypes.NewKVStoreKey(feemarkettypes.StoreKey)
	fmTKey = storetypes.NewTransientStoreKey(feemarkettypes.TransientKey)
)

// H_C18_2_FeeMarket: parameters including the current base fee round-trip through export / init.
func H_C18_2_FeeMarket() {
	mk := func() (sdk.Context, feemarketkeeper.Keeper) {
		ms := model.NewMS(fmKey, fmTKey)
		ctx := sdk.NewContext(ms, env.Header(), false, model.NopLogger{})
		return ctx, feemarketkeeper.NewKeeper(model.Codec{}, authtypes.NewModuleAddress("gov"), fmKey, fmTKey, paramstypes.Subspace{})
	}
	ctx1, k1 := mk()
	b := env.Amount("baseFee", 250)
	mgp := env.Amount("minGasPriceRaw", 250)
	p := feemarkettypes.Params{BaseFee: sdkmath.NewIntFromBigInt(b), MinGasPrice: sdkmath.LegacyNewDecFromBigIntWithPrec(mgp, sdkmath.LegacyPrecision)}
	if err := k1.SetParams(ctx1, p); err != nil {
		verif.Reach("invalid-params")
		return
	}
	gs := feemarket.ExportGenesis(ctx1, k1)
	ctx2, k2 := mk()
	panicked := verif.Try(func() { feemarket.InitGenesis(ctx2, k2, *gs) })
	verif.Assert("import-of-own-export-succeeds", !panicked)
	if panicked {
		return
	}
	p2 := k2.GetParams(ctx2)
	verif.Assert("base-fee-reproduced", p2.BaseFee.BigInt().Cmp(b) == 0)
	verif.Assert("min-gas-price-reproduced", p2.MinGasPrice.BigInt().Cmp(mgp) == 0)
	gs2 := feemarket.ExportGenesis(ctx2, k2)
	verif.Assert("second-export-equals-first", verif.And(gs2.Params.BaseFee.BigInt().Cmp(gs.Params.BaseFee.BigInt()) == 0, gs2.Params.MinGasPrice.BigInt().Cmp(gs.Params.MinGasPrice.BigInt()) == 0))
}

// H_C18_3_Cpc: registered custom precompiles with metadata, the denomination index and ERC-20 allowances
// round-trip through cpc.ExportGenesis / InitGenesis.
func H_C18_3_Cpc() {
	e1 := env.New(Denom)
	e1.SetSupply(Denom, big.NewInt(1000))
	wl := whitelistOf(verif.Choice("whitelist", 3))
	if err := e1.CK.SetParams(e1.Ctx, cpctypes.Params{ProtocolVersion: 1, WhitelistedDeployers: wl}); err != nil {
		panic(err)
	}
	hasStaking := verif.Bool("hasStaking")
	hasErc20 := verif.Bool("hasErc20")
	hasAllowance := verif.Bool("hasAllowance")
	if _, err := e1.CK.DeployBech32CustomPrecompiledContract(e1.Ctx); err != nil {
		panic(err)
	}
	if hasStaking {
		if _, err := e1.CK.DeployStakingCustomPrecompiledContract(e1.Ctx, cpctypes.StakingCustomPrecompiledContractMeta{Symbol: "STK", Decimals: 18}); err != nil {
			panic(err)
		}
	}
	if hasErc20 {
		if _, err := e1.CK.DeployErc20CustomPrecompiledContract(e1.Ctx, "Other", cpctypes.Erc20CustomPrecompiledContractMeta{Symbol: "OTH", Decimals: 6, MinDenom: Denom}); err != nil {
			panic(err)
		}
	}
	allow := env.Amount("allowance", 200)
	if hasAllowance {
		verif.Assume(allow.Sign() > 0)
		e1.CK.SetErc20CpcAllowance(e1.Ctx, X1, X2, allow)
	}
	gs := cpc.ExportGenesis(e1.Ctx, e1.CK)
	e2 := env.New(Denom)
	e2.SetSupply(Denom, big.NewInt(1000))
	panicked := verif.Try(func() { cpc.InitGenesis(e2.Ctx, e2.CK, stakingkeeper.Keeper{}, gs) })
	verif.Assert("import-of-own-export-succeeds", !panicked)
	if panicked {
		return
	}
	p2 := e2.CK.GetParams(e2.Ctx)
	verif.Assert("params-reproduced", p2.ProtocolVersion == 1 && len(p2.WhitelistedDeployers) == len(wl))
	verif.Assert("staking-contract-reproduced", e2.CK.HasCustomPrecompiledContract(e2.Ctx, cpctypes.CpcStakingFixedAddress) == hasStaking)
	m1, m2 := e1.CK.GetAllCustomPrecompiledContractsMeta(e1.Ctx), e2.CK.GetAllCustomPrecompiledContractsMeta(e2.Ctx)
	// known finding C18-F1: the genesis state has no fields for deployed ERC-20 contracts / allowances
	verif.AssertKF("registered-contracts-reproduced", len(m1) == len(m2), "C18-F1", hasErc20)
	i1, i2 := e1.CK.GetErc20CustomPrecompiledContractAddressByMinDenom(e1.Ctx, Denom), e2.CK.GetErc20CustomPrecompiledContractAddressByMinDenom(e2.Ctx, Denom)
	verif.AssertKF("denomination-index-reproduced", (i1 == nil) == (i2 == nil) && (i1 == nil || *i1 == *i2), "C18-F1", hasErc20)
	verif.AssertKF("allowances-reproduced", e2.CK.GetErc20CpcAllowance(e2.Ctx, X1, X2).Cmp(e1.CK.GetErc20CpcAllowance(e1.Ctx, X1, X2)) == 0, "C18-F1", hasAllowance)
	gs2 := cpc.ExportGenesis(e2.Ctx, e2.CK)
	verif.Assert("second-export-equals-first", gs2.DeployStakingContract == gs.DeployStakingContract && gs2.DeployErc20Native == gs.DeployErc20Native && gs2.Params.ProtocolVersion == gs.Params.ProtocolVersion && len(gs2.Params.WhitelistedDeployers) == len(gs.Params.WhitelistedDeployers))
}

var _ = evmtypes.ModuleName
