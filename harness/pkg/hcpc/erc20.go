//go:build verif

// Package hcpc holds the harnesses for the custom precompiled contracts (x/cpc), driven through the fork's real
// (*EVM).Call -> RunPrecompiledContract -> RunCustom -> the repo's method wrapper and executors, with the
// precompile set wired by the real Keeper.NewEVM.
package hcpc

import (
	"math/big"

	authtypes "github.com/cosmos/cosmos-sdk/x/auth/types"
	"github.com/ethereum/go-ethereum/common"
	ethtypes "github.com/ethereum/go-ethereum/core/types"
	corevm "github.com/ethereum/go-ethereum/core/vm"

	cpcabi "github.com/EscanBE/evermint/v12/x/cpc/abi"
	cpctypes "github.com/EscanBE/evermint/v12/x/cpc/types"
	evmvm "github.com/EscanBE/evermint/v12/x/evm/vm"
	"github.com/EscanBE/evermint/v12/zzverif/env"
	"github.com/EscanBE/evermint/v12/zzverif/model"
	"github.com/EscanBE/evermint/v12/zzverif/verif"
)

var (
	X1       = common.HexToAddress("0x1100000000000000000000000000000000000001")
	X2       = common.HexToAddress("0x2200000000000000000000000000000000000002")
	X3       = common.HexToAddress("0x3300000000000000000000000000000000000003")
	Zero     = common.Address{}
	CpcMod   = common.BytesToAddress(authtypes.NewModuleAddress(cpctypes.ModuleName))
	Coinbase = common.HexToAddress("0x5000000000000000000000000000000000000e05")
	// the ERC-20 contract is a window onto this bank denomination
	Denom   = "other"
	MaxU256 = new(big.Int).Sub(new(big.Int).Lsh(big.NewInt(1), 256), big.NewInt(1))
)

var parties = []common.Address{X1, X2, X3, Zero, CpcMod}
var holders = []common.Address{X1, X2, X3, CpcMod}

func pick(name string) common.Address { return parties[verif.Choice(name, len(parties))] }

// selectors as registered by the executors (Method4BytesSignatures)
var sel = map[string][]byte{
	"name": {0x06, 0xfd, 0xde, 0x03}, "symbol": {0x95, 0xd8, 0x9b, 0x41}, "decimals": {0x31, 0x3c, 0xe5, 0x67},
	"totalSupply": {0x18, 0x16, 0x0d, 0xdd}, "balanceOf": {0x70, 0xa0, 0x82, 0x31},
	"transferFrom": {0x23, 0xb8, 0x72, 0xdd}, "transfer": {0xa9, 0x05, 0x9c, 0xbb}, "approve": {0x09, 0x5e, 0xa7, 0xb3},
	"allowance": {0xdd, 0x62, 0xed, 0x3e}, "burnFrom": {0x79, 0xcc, 0x67, 0x90}, "burn": {0x42, 0x96, 0x6c, 0x68},
}

// callData builds call data: natively real ABI encoding, under the engine selector ++ opaque argument handle.
func callData(method string, args ...interface{}) []byte {
	if !verif.Symbolic() {
		bz, err := cpcabi.Erc20CpcInfo.ABI.Pack(method, args...)
		if err != nil {
			panic(err)
		}
		return bz
	}
	return append(append([]byte(nil), sel[method]...), model.AbiArgs(args...)...)
}

func outputs(method string, bz []byte) []interface{} {
	if !verif.Symbolic() {
		out, err := cpcabi.Erc20CpcInfo.ABI.Unpack(method, bz)
		if err != nil {
			panic(err)
		}
		return out
	}
	out, ok := model.AbiOut(bz)
	if !ok {
		panic("undecodable precompile output")
	}
	return out
}

// Ledger is the reference ERC-20 ledger (OpenZeppelin semantics + burn), the oracle of C10.
type Ledger struct {
	Bal    map[common.Address]*big.Int
	Allow  map[[2]common.Address]*big.Int
	Supply *big.Int
}

func (l *Ledger) allowance(o, s common.Address) *big.Int {
	if v, ok := l.Allow[[2]common.Address{o, s}]; ok {
		return v
	}
	return big.NewInt(0)
}

func (l *Ledger) bal(a common.Address) *big.Int {
	if v, ok := l.Bal[a]; ok {
		return v
	}
	return big.NewInt(0)
}

// world: bank balances of the denom for the holders, allowance table over (holder, holder) pairs.
type world struct {
	e        *env.Env
	contract common.Address
	ref      *Ledger
}

func newWorld() *world {
	e := env.New(Denom)
	w := &world{e: e, ref: &Ledger{Bal: map[common.Address]*big.Int{}, Allow: map[[2]common.Address]*big.Int{}}}
	sum := env.Amount("supplyRest", 200)
	sum = new(big.Int).Set(sum)
	for i, h := range holders {
		b := env.Amount("bal"+string(rune('0'+i)), 128)
		// every holder holds something (zero / exactly-spent balances are explored by the StateDB-level harnesses)
		verif.Assume(b.Sign() > 0)
		e.SetBalance(h[:], Denom, b)
		w.ref.Bal[h] = b
		sum = new(big.Int).Add(sum, b)
	}
	verif.Assume(sum.Sign() > 0)
	e.SetSupply(Denom, sum)
	w.ref.Supply = sum
	addr, err := e.CK.DeployErc20CustomPrecompiledContract(e.Ctx, "Other Token", cpctypes.Erc20CustomPrecompiledContractMeta{Symbol: "OTH", Decimals: 6, MinDenom: Denom})
	if err != nil {
		panic(err)
	}
	w.contract = addr
	return w
}

// call runs one call of the precompile from caller through the real EVM plumbing; returns output, error, logs.
func (w *world) call(sdb evmvm.CStateDB, caller common.Address, input []byte, static bool) ([]byte, error) {
	e := w.e
	ctx := sdb.GetCurrentContext()
	msg := ethtypes.NewMessage(caller, &w.contract, 0, big.NewInt(0), 1_000_000, big.NewInt(0), big.NewInt(0), big.NewInt(0), input, nil, true)
	evm := e.EK.NewEVM(ctx, msg, e.EVMConfig(ctx, Coinbase, big.NewInt(0)), nil, sdb)
	var ret []byte
	var err error
	if static {
		ret, _, err = evm.StaticCall(corevm.AccountRef(caller), w.contract, input, 1_000_000)
	} else {
		ret, _, err = evm.Call(corevm.AccountRef(caller), w.contract, input, 1_000_000, big.NewInt(0))
	}
	return ret, err
}

// observe compares the bank / allowance state seen through ctx with the reference ledger.
func (w *world) sameAsRef(sdb evmvm.CStateDB) bool {
	ctx := sdb.GetCurrentContext()
	var cs []bool
	for _, h := range holders {
		cs = append(cs, w.e.Balance(ctx, h[:], Denom).Cmp(w.ref.bal(h)) == 0)
	}
	cs = append(cs, w.e.Balance(ctx, Zero[:], Denom).Sign() == 0)
	cs = append(cs, w.e.Supply(ctx, Denom).Cmp(w.ref.Supply) == 0)
	for _, o := range holders {
		for _, s := range holders {
			cs = append(cs, w.e.CK.GetErc20CpcAllowance(ctx, o, s).Cmp(w.ref.allowance(o, s)) == 0)
		}
	}
	return verif.And(cs...)
}

const (
	mTransfer = iota
	mTransferFrom
	mApprove
	mBurn
	mBurnFrom
	nMethods
)

var transferTopic = common.HexToHash("0xddf252ad1be2c89b69c2b068fc378daa952ba7f163c4a11628f55a4df523b3ef")
var approvalTopic = common.HexToHash("0x8c5be1e5ebec7d5bd14f71427d1e84f3dd0314c0f7b2291e5b200ac8c7c3b925")

// refSpend applies the allowance rule; returns false when the spender is not allowed.
func (l *Ledger) refSpend(owner, spender common.Address, amt *big.Int) bool {
	if owner == spender {
		return true
	}
	cur := l.allowance(owner, spender)
	if cur.Cmp(MaxU256) == 0 {
		return true
	}
	if cur.Cmp(amt) < 0 {
		return false
	}
	l.Allow[[2]common.Address{owner, spender}] = new(big.Int).Sub(cur, amt)
	return true
}

func (l *Ledger) refMove(from, to common.Address, amt *big.Int) bool {
	if l.bal(from).Cmp(amt) < 0 {
		return false
	}
	if from == to {
		return true
	}
	l.Bal[from] = new(big.Int).Sub(l.bal(from), amt)
	if to == Zero {
		l.Supply = new(big.Int).Sub(l.Supply, amt)
	} else {
		l.Bal[to] = new(big.Int).Add(l.bal(to), amt)
	}
	return true
}

// clone for roll-back of the reference on failure
func (l *Ledger) clone() *Ledger {
	c := &Ledger{Bal: map[common.Address]*big.Int{}, Allow: map[[2]common.Address]*big.Int{}, Supply: l.Supply}
	for k, v := range l.Bal {
		c.Bal[k] = v
	}
	for k, v := range l.Allow {
		c.Allow[k] = v
	}
	return c
}

// step performs one symbolic state-changing ERC-20 call on both the implementation and the reference ledger and
// asserts agreement: success/failure, exact amounts, exactly one matching log, nothing else touched.
func (w *world) step(pfx string, sdb evmvm.CStateDB) {
	m := verif.Choice(pfx+".method", nMethods)
	caller := pick(pfx + ".caller")
	a1, a2 := caller, caller
	if m != mBurn {
		a1 = pick(pfx + ".addr1")
	}
	if m == mTransferFrom {
		a2 = pick(pfx + ".addr2")
	}
	w.stepWith(pfx, sdb, m, caller, a1, a2, true)
}

// stepWith runs one call of method m; setup draws the allowance entries the call depends on (otherwise the
// entries left by the previous call are used).
func (w *world) stepWith(pfx string, sdb evmvm.CStateDB, m int, caller, a1, a2 common.Address, setup bool) {
	amt := env.Amount(pfx+".amount", 256)
	// the allowance the call depends on, allowance[a1][caller]: none / finite / infinite; and a bystander entry
	// allowance[caller][a1] that must stay untouched (it is the same entry when a1 == caller)
	ctx := sdb.GetCurrentContext()
	setAllow := func(name string, o, sp common.Address) {
		var v *big.Int
		switch verif.Choice(name, 4) {
		case 0:
			return // keep whatever is there
		case 1:
			v = big.NewInt(0)
		case 2:
			v = env.Amount(name+".value", 256)
			verif.Assume(v.Sign() > 0)
		case 3:
			v = MaxU256
		}
		w.e.CK.SetErc20CpcAllowance(ctx, o, sp, v)
		w.ref.Allow[[2]common.Address{o, sp}] = v
	}
	if setup {
		setAllow(pfx+".allowance", a1, caller)
	}
	if setup && verif.Bool(pfx+".bystanderAllowance") {
		by := env.Amount(pfx+".bystanderAllowance.value", 256)
		verif.Assume(by.Sign() > 0)
		w.e.CK.SetErc20CpcAllowance(ctx, caller, a1, by)
		w.ref.Allow[[2]common.Address{caller, a1}] = by
	}
	logsBefore := len(sdb.GetTransactionLogs())

	before := w.ref.clone()
	var input []byte
	wantOK := false
	var logFrom, logTo common.Address
	wantTopic := transferTopic
	switch m {
	case mTransfer:
		input = callData("transfer", a1, amt)
		wantOK = caller != Zero && a1 != Zero && w.ref.refMove(caller, a1, amt)
		logFrom, logTo = caller, a1
	case mTransferFrom:
		input = callData("transferFrom", a1, a2, amt)
		wantOK = a1 != Zero && a2 != Zero && w.ref.refSpend(a1, caller, amt) && w.ref.refMove(a1, a2, amt)
		logFrom, logTo = a1, a2
	case mApprove:
		input = callData("approve", a1, amt)
		wantOK = caller != Zero && a1 != Zero
		if wantOK {
			w.ref.Allow[[2]common.Address{caller, a1}] = amt
		}
		logFrom, logTo = caller, a1
		wantTopic = approvalTopic
	case mBurn:
		input = callData("burn", amt)
		wantOK = caller != Zero && w.ref.refMove(caller, Zero, amt)
		logFrom, logTo = caller, Zero
	case mBurnFrom:
		input = callData("burnFrom", a1, amt)
		wantOK = a1 != Zero && w.ref.refSpend(a1, caller, amt) && w.ref.refMove(a1, Zero, amt)
		logFrom, logTo = a1, Zero
	}
	if !wantOK {
		w.ref = before
	}
	ret, err := w.call(sdb, caller, input, false)
	verif.Assert(pfx+"-succeeds-iff-reference-allows", (err == nil) == wantOK)
	verif.Assert(pfx+"-state-equals-reference-ledger", w.sameAsRef(sdb))
	logs := sdb.GetTransactionLogs()
	if err != nil {
		verif.Assert(pfx+"-failed-call-emits-no-log", len(logs) == logsBefore)
		verif.Reach(pfx + "-failure-path")
		return
	}
	verif.Reach(pfx + "-success-path")
	verif.Assert(pfx+"-returns-true", len(outputs("transfer", ret)) == 1 && outputs("transfer", ret)[0].(bool))
	verif.Assert(pfx+"-exactly-one-log", len(logs) == logsBefore+1)
	if len(logs) == logsBefore+1 {
		l := logs[len(logs)-1]
		okLog := l.Address == w.contract && len(l.Topics) == 3 && l.Topics[0] == wantTopic &&
			l.Topics[1] == common.BytesToHash(logFrom.Bytes()) && l.Topics[2] == common.BytesToHash(logTo.Bytes())
		verif.Assert(pfx+"-log-matches-call", okLog)
		verif.Assert(pfx+"-log-amount", new(big.Int).SetBytes(l.Data).Cmp(amt) == 0)
	}
}

// H_C10_1_OneCall: one state-changing call from an arbitrary ledger state (inductive step), then the views.
func H_C10_1_OneCall() {
	w := newWorld()
	sdb := w.e.NewStateDB(w.e.Ctx, Coinbase)
	verif.Assert("initial-state-equals-reference", w.sameAsRef(sdb))
	w.step("call1", sdb)
}

// H_C10_3_Views: the views after an arbitrary transfer (balanceOf / totalSupply / allowance equal bank and
// allowance state, change nothing, work under STATICCALL).
func H_C10_3_Views() {
	w := newWorld()
	sdb := w.e.NewStateDB(w.e.Ctx, Coinbase)
	amt := env.Amount("amount", 256)
	_, _ = w.call(sdb, X1, callData("transfer", X2, amt), false)
	if w.ref.refMove(X1, X2, amt) {
		verif.Reach("after-successful-transfer")
	}
	w.e.CK.SetErc20CpcAllowance(sdb.GetCurrentContext(), X2, X1, amt)
	w.ref.Allow[[2]common.Address{X2, X1}] = amt
	w.views(sdb)
}

// H_C10_2_TwoCalls: the approve -> spend interplay through the real contract in one transaction: X1 approves X2
// for a symbolic amount (real approve call), then X2 calls transferFrom / burnFrom / approve / transfer / burn with
// X1 as the owner argument, using the allowance entry the first call wrote (no re-initialisation in between).
// (All pairs of arbitrary calls are 6331^2 paths; the inductive step H_C10_1 from an arbitrary ledger and
// allowance table covers longer histories.)
func H_C10_2_TwoCalls() {
	w := newWorld()
	sdb := w.e.NewStateDB(w.e.Ctx, Coinbase)
	w.stepWith("call1", sdb, mApprove, X1, X2, X2, false)
	m := verif.Choice("call2.method", nMethods)
	a2 := X2
	if m == mTransferFrom {
		a2 = pick("call2.addr2")
	}
	w.stepWith("call2", sdb, m, X2, X1, a2, false)
	if m == mTransferFrom || m == mBurnFrom {
		verif.Reach("spend-after-approve")
	}
}

// H_C10_2b_AnyThenSpend (thorough tier): an arbitrary first call (every method, caller, argument and allowance set-up of
// H_C10_1) followed by X2 spending from X1 (transferFrom to X3 / burnFrom) on the state the first call left.
func H_C10_2b_AnyThenSpend() {
	w := newWorld()
	sdb := w.e.NewStateDB(w.e.Ctx, Coinbase)
	w.step("call1", sdb)
	m := mTransferFrom
	if verif.Bool("call2.burnFrom") {
		m = mBurnFrom
	}
	w.stepWith("call2", sdb, m, X2, X1, X3, false)
}

// views: balanceOf / totalSupply / allowance return exactly the bank / allowance state, change nothing, and work
// in a static context.
func (w *world) views(sdb evmvm.CStateDB) {
	who := parties[verif.Choice("view.who", len(parties))]
	other := X1
	static := verif.Bool("view.static")
	ctx := sdb.GetCurrentContext()
	ret, err := w.call(sdb, X3, callData("balanceOf", who), static)
	verif.Assert("balanceOf-equals-bank-balance", err == nil && outputs("balanceOf", ret)[0].(*big.Int).Cmp(w.e.Balance(ctx, who[:], Denom)) == 0)
	ret, err = w.call(sdb, X3, callData("totalSupply"), static)
	verif.Assert("totalSupply-equals-bank-supply", err == nil && outputs("totalSupply", ret)[0].(*big.Int).Cmp(w.e.Supply(ctx, Denom)) == 0)
	ret, err = w.call(sdb, X3, callData("allowance", who, other), static)
	verif.Assert("allowance-view-equals-store", err == nil && outputs("allowance", ret)[0].(*big.Int).Cmp(w.e.CK.GetErc20CpcAllowance(ctx, who, other)) == 0)
	verif.Assert("views-change-nothing", w.sameAsRef(sdb))
}
