//go:build verif

package hcpc

import (
	"math/big"

	sdkmath "cosmossdk.io/math"
	sdk "github.com/cosmos/cosmos-sdk/types"
	stakingtypes "github.com/cosmos/cosmos-sdk/x/staking/types"
	"github.com/ethereum/go-ethereum/common"
	ethtypes "github.com/ethereum/go-ethereum/core/types"
	corevm "github.com/ethereum/go-ethereum/core/vm"

	cpcabi "github.com/EscanBE/evermint/v12/x/cpc/abi"
	cpctypes "github.com/EscanBE/evermint/v12/x/cpc/types"
	"github.com/EscanBE/evermint/v12/zzverif/env"
	"github.com/EscanBE/evermint/v12/zzverif/model"
	"github.com/EscanBE/evermint/v12/zzverif/verif"
)

var stakingSel = map[string][]byte{
	"delegate": {0x02, 0x6e, 0x40, 0x2b}, "undelegate": {0x4d, 0x99, 0xdd, 0x16}, "redelegate": {0x6b, 0xd8, 0xf8, 0x04},
	"withdrawReward": {0xb8, 0x6e, 0x32, 0x1c}, "transfer": {0xa9, 0x05, 0x9c, 0xbb}, "delegateByActionMessage": {0xd7, 0x3d, 0x84, 0x1b}, "withdrawRewardsByMessage": {0x4b, 0xd7, 0x01, 0x75},
}

var (
	Val1 = common.HexToAddress("0xaa00000000000000000000000000000000000001")
	Val2 = common.HexToAddress("0xbb00000000000000000000000000000000000002")
	delegateTopic   = common.HexToHash("0x510b11bb3f3c799b11307c01ab7db0d335683ef5b2da98f7697de744f465eacc")
	undelegateTopic = common.HexToHash("0xbda8c0e95802a0e6788c3e9027292382d5a41b86556015f846b03a9874b2b827")
	withdrawTopic   = common.HexToHash("0xad71f93891cecc86a28a627d5495c28fabbd31cdd2e93851b16ce3421fdab2e5")
)

func stakingCall(method string, args ...interface{}) []byte {
	return append(append([]byte(nil), stakingSel[method]...), model.AbiArgs(args...)...)
}

type wantLog struct {
	topic          common.Hash
	delegator, val common.Address
	amount         *big.Int
}

func checkLogs(pfx string, logs []*ethtypes.Log, want []wantLog) {
	verif.Assert(pfx+"-one-log-per-module-event", len(logs) == len(want))
	if len(logs) != len(want) {
		return
	}
	for i, w := range want {
		l := logs[i]
		verif.Assert(pfx+"-log-matches-module-event", l.Address == cpctypes.CpcStakingFixedAddress && len(l.Topics) == 3 && l.Topics[0] == w.topic &&
			l.Topics[1] == common.BytesToHash(w.delegator.Bytes()) && l.Topics[2] == common.BytesToHash(w.val.Bytes()))
		verif.Assert(pfx+"-log-amount-matches-module-event", new(big.Int).SetBytes(l.Data).Cmp(w.amount) == 0)
	}
}

func stakingWorld() (*env.Env, common.Address) {
	model.ResetStaking()
	e := env.New(model.BondDenom)
	addr, err := e.CK.DeployStakingCustomPrecompiledContract(e.Ctx, cpctypes.StakingCustomPrecompiledContractMeta{Symbol: "STK", Decimals: 18})
	if err != nil {
		panic(err)
	}
	return e, addr
}

func callStaking(e *env.Env, contract, caller common.Address, input []byte) (err error, logs []*ethtypes.Log) {
	sdb := e.NewStateDB(e.Ctx, Coinbase)
	ctx := sdb.GetCurrentContext()
	msg := ethtypes.NewMessage(caller, &contract, 0, big.NewInt(0), 5_000_000, big.NewInt(0), big.NewInt(0), big.NewInt(0), input, nil, true)
	evm := e.EK.NewEVM(ctx, msg, e.EVMConfig(ctx, Coinbase, big.NewInt(0)), nil, sdb)
	_, _, err = evm.Call(corevm.AccountRef(caller), contract, input, 5_000_000, big.NewInt(0))
	return err, sdb.GetTransactionLogs()
}

// H_C11_1_CallerOnly: delegate / undelegate / redelegate / withdrawReward through the fork's real EVM.Call ->
// RunCustom -> the repo's staking executors, with the SDK staking / distribution message servers as recording
// stubs: exactly one native message is submitted, its delegator is the immediate caller, validator(s), amount and
// denomination are the decoded arguments; nothing is submitted when the call fails; the logs emitted
// (Delegate / Undelegate / WithdrawReward) match one-to-one the module events produced by that message -
// including the reward payout the distribution hook makes when an existing delegation is modified.
func H_C11_1_CallerOnly() {
	e, contract := stakingWorld()
	caller := []common.Address{X1, X2}[verif.Choice("caller", 2)]
	val := []common.Address{Val1, Val2}[verif.Choice("validator", 2)]
	amt := env.Amount("amount", 200)
	if verif.Bool("pendingRewards") {
		model.PendingRewards = env.Amount("rewards", 100)
	}
	model.StakingFails = verif.Bool("nativeMessageRejected")
	callerBech := sdk.AccAddress(caller.Bytes()).String()
	valBech := sdk.ValAddress(val.Bytes()).String()
	method := verif.Choice("method", 4)
	var input []byte
	var want []wantLog
	kind := ""
	pay := func() {
		if model.PendingRewards != nil && model.PendingRewards.Sign() > 0 {
			want = append(want, wantLog{withdrawTopic, caller, val, model.PendingRewards})
		}
	}
	switch method {
	case 0:
		kind = "delegate"
		input = stakingCall("delegate", val, amt)
		pay()
		want = append(want, wantLog{delegateTopic, caller, val, amt})
	case 1:
		kind = "undelegate"
		input = stakingCall("undelegate", val, amt)
		pay()
		want = append(want, wantLog{undelegateTopic, caller, val, amt})
	case 2:
		kind = "redelegate"
		input = stakingCall("redelegate", val, Val2, amt) // from val to Val2
		pay()
		want = append(want, wantLog{undelegateTopic, caller, val, amt}, wantLog{delegateTopic, caller, Val2, amt})
	case 3:
		kind = "withdraw"
		input = stakingCall("withdrawReward", val)
		pay()
	}
	err, logs := callStaking(e, contract, caller, input)
	if err != nil {
		// the frame was reverted: whatever the stub recorded was recorded inside the reverted frame; the property
		// is about what is submitted on success, and that a failing call emits no log
		verif.Assert("failed-call-emits-no-log", len(logs) == 0)
		verif.Reach("failed")
		return
	}
	verif.Reach("succeeded")
	verif.Assert("exactly-one-native-message", len(model.StakingLog) == 1)
	if len(model.StakingLog) != 1 {
		return
	}
	r := model.StakingLog[0]
	verif.Assert("native-message-kind", r.Kind == kind)
	verif.Assert("delegator-is-the-immediate-caller", r.Delegator == callerBech)
	if method == 2 {
		verif.Assert("validators-are-the-arguments", r.SrcVal == valBech && r.Validator == sdk.ValAddress(Val2.Bytes()).String())
	} else {
		verif.Assert("validators-are-the-arguments", r.Validator == valBech)
	}
	if method != 3 {
		verif.Assert("amount-and-denom-are-the-arguments", r.Amount.Cmp(amt) == 0 && r.Denom == model.BondDenom)
		verif.Assert("zero-amount-is-refused", amt.Sign() > 0)
	}
	checkLogs("logs", logs, want)
}

// H_C11_2_SignedMessage: delegateByActionMessage / withdrawRewardsByMessage: a native message is submitted only
// if the message's delegator equals the immediate caller AND the EIP-712 signature over exactly this message for
// the EVM's own chain id recovers to that delegator; the submitted native message carries the signed fields.
func H_C11_2_SignedMessage() {
	e, contract := stakingWorld()
	caller := []common.Address{X1, X2}[verif.Choice("caller", 2)]
	delegator := []common.Address{X1, X2}[verif.Choice("message.delegator", 2)]
	model.Eip712Recovered = []common.Address{X1, X2, X3}[verif.Choice("signature.recoversTo", 3)]
	model.Eip712Err = verif.Bool("signature.invalid")
	valBech := sdk.ValAddress(Val1.Bytes()).String()
	amt := env.Amount("amount", 200)
	var r32, s32 [32]byte
	var input []byte
	withdraw := verif.Bool("withdrawVariant")
	if withdraw {
		model.PendingRewards = big.NewInt(5)
		input = stakingCall("withdrawRewardsByMessage", cpcabi.WithdrawRewardMessage{Delegator: delegator, FromValidator: valBech}, r32, s32, uint8(27))
	} else {
		action := []string{cpcabi.StakingMessageActionDelegate, cpcabi.StakingMessageActionUndelegate}[verif.Choice("message.action", 2)]
		input = stakingCall("delegateByActionMessage", cpcabi.StakingMessage{Action: action, Delegator: delegator, Validator: valBech, Amount: amt, Denom: model.BondDenom, OldValidator: "-"}, r32, s32, uint8(27))
	}
	err, _ := callStaking(e, contract, caller, input)
	if err != nil {
		verif.Reach("refused")
		return
	}
	verif.Reach("accepted")
	verif.Assert("signed-message-delegator-is-the-caller", delegator == caller)
	verif.Assert("signature-recovers-to-the-delegator", !model.Eip712Err && model.Eip712Recovered == delegator)
	verif.Assert("signature-checked-for-the-evm-chain-id", model.Eip712ChainID != nil && model.Eip712ChainID.Cmp(big.NewInt(90909)) == 0)
	verif.Assert("exactly-one-native-message", len(model.StakingLog) == 1)
	if len(model.StakingLog) == 1 {
		rec := model.StakingLog[0]
		verif.Assert("native-message-acts-for-the-signer", rec.Delegator == sdk.AccAddress(delegator.Bytes()).String() && rec.Validator == valBech)
		if !withdraw {
			verif.Assert("native-message-carries-the-signed-amount", rec.Amount.Cmp(amt) == 0 && rec.Denom == model.BondDenom)
		}
	}
}

// H_C01_3_StakingTransferChoice: the validator that transfer() of the staking precompile delegates to is a
// function of the staking state alone: executed twice from the same state - with the keeper returning the
// caller's delegations / the bonded validators in two different orders and with independently chosen iteration
// orders for every Go map ranged over - it submits the same native MsgDelegate. Validators carry symbolic
// token amounts, ties included.
func H_C01_3_StakingTransferChoice() {
	n := 2 + verif.Choice("nValidators", 2)
	ops := []common.Address{Val1, Val2, X3}
	toks := make([]*big.Int, n)
	for i := 0; i < n; i++ {
		toks[i] = env.Amount("tokens"+string(rune('0'+i)), 64)
	}
	delegated := verif.Bool("callerHasDelegations")
	amt := big.NewInt(1000)
	run := func(reverse bool) (string, error) {
		e, contract := stakingWorld()
		e.SetBalance(X1[:], model.BondDenom, big.NewInt(5000))
		model.Validators = map[string]stakingtypes.Validator{}
		model.Delegations, model.LastValidators = nil, nil
		for k := 0; k < n; k++ {
			i := k
			if reverse {
				i = n - 1 - k
			}
			op := sdk.ValAddress(ops[i].Bytes()).String()
			model.Validators[op] = stakingtypes.Validator{OperatorAddress: op, Status: stakingtypes.Bonded, Tokens: sdkmath.NewIntFromBigInt(toks[i])}
			model.LastValidators = append(model.LastValidators, op)
			if delegated {
				model.Delegations = append(model.Delegations, stakingtypes.Delegation{DelegatorAddress: sdk.AccAddress(X1.Bytes()).String(), ValidatorAddress: op})
			}
		}
		verif.MapOrder(true)
		err, _ := callStaking(e, contract, X1, stakingCall("transfer", X1, amt))
		verif.MapOrder(false)
		if err != nil {
			verif.Note("err", err.Error())
			return "", err
		}
		if len(model.StakingLog) != 1 {
			return "", nil
		}
		return model.StakingLog[0].Validator, nil
	}
	v1, e1 := run(false)
	v2, e2 := run(true)
	verif.Assert("same-outcome", (e1 == nil) == (e2 == nil))
	if e1 != nil || e2 != nil {
		return
	}
	verif.Assert("same-validator-chosen-whatever-the-order", v1 == v2 && v1 != "")
	verif.Reach("chosen")
}
