//go:build verif

package hcpc

import (
	"math/big"

	sdkmath "cosmossdk.io/math"
	sdk "github.com/cosmos/cosmos-sdk/types"
	stakingtypes "github.com/cosmos/cosmos-sdk/x/staking/types"
	"github.com/ethereum/go-ethereum/common"
	ethtypes "github.com/ethereum/go-ethereum/core/types"
	corevm "github.com/ethereum/go-ethereum/core/vm"

	cpcabi "github.com/EscanBE/evermint/v12/x/cpc/abi"
	cpctypes "github.com/EscanBE/evermint/v12/x/cpc/types"
	"github.com/EscanBE/evermint/v12/zzverif/env"
	"github.com/EscanBE/evermint/v12/zzverif/model"
	"github.com/EscanBE/evermint/v12/zzverif/verif"
)

var stakingSel = map[string][]byte{
	"delegate": {0x02, 0x6e, 0x40, 0x2b}, "undelegate": {0x4d, 0x99, 0xdd, 0x16}, "redelegate": {0x6b, 0xd8, 0xf8, 0x04},
	"withdrawReward": {0xb8, 0x6e, 0x32, 0x1c}, "withdrawRewards": {0xc7, 0xb8, 0x98, 0x1c},
	"delegatedValidators": {0x5f, 0xdb, 0x55, 0x0d}, "delegationOf": {0x62, 0x8d, 0xa5, 0x27}, "totalDelegationOf": {0xa2, 0xb9, 0x15, 0xe2}, "rewardOf": {0x47, 0x32, 0xaa, 0x1d}, "rewardsOf": {0x47, 0x9b, 0xa7, 0xae}, "transfer": {0xa9, 0x05, 0x9c, 0xbb}, "delegateByActionMessage": {0xd7, 0x3d, 0x84, 0x1b}, "withdrawRewardsByMessage": {0x4b, 0xd7, 0x01, 0x75},
}

var (
	Val1 = common.HexToAddress("0xaa00000000000000000000000000000000000001")
	Val2 = common.HexToAddress("0xbb00000000000000000000000000000000000002")
	delegateTopic   = common.HexToHash("0x510b11bb3f3c799b11307c01ab7db0d335683ef5b2da98f7697de744f465eacc")
	undelegateTopic = common.HexToHash("0xbda8c0e95802a0e6788c3e9027292382d5a41b86556015f846b03a9874b2b827")
	withdrawTopic   = common.HexToHash("0xad71f93891cecc86a28a627d5495c28fabbd31cdd2e93851b16ce3421fdab2e5")
)

func stakingCall(method string, args ...interface{}) []byte {
	return append(append([]byte(nil), stakingSel[method]...), model.AbiArgs(args...)...)
}

type wantLog struct {
	topic          common.Hash
	delegator, val common.Address
	amount         *big.Int
}

func checkLogs(pfx string, logs []*ethtypes.Log, want []wantLog) {
	verif.Assert(pfx+"-one-log-per-module-event", len(logs) == len(want))
	if len(logs) != len(want) {
		return
	}
	for i, w := range want {
		l := logs[i]
		verif.Assert(pfx+"-log-matches-module-event", l.Address == cpctypes.CpcStakingFixedAddress && len(l.Topics) == 3 && l.Topics[0] == w.topic &&
			l.Topics[1] == common.BytesToHash(w.delegator.Bytes()) && l.Topics[2] == common.BytesToHash(w.val.Bytes()))
		verif.Assert(pfx+"-log-amount-matches-module-event", new(big.Int).SetBytes(l.Data).Cmp(w.amount) == 0)
	}
}

func stakingWorld() (*env.Env, common.Address) {
	model.ResetStaking()
	e := env.New(model.BondDenom)
	addr, err := e.CK.DeployStakingCustomPrecompiledContract(e.Ctx, cpctypes.StakingCustomPrecompiledContractMeta{Symbol: "STK", Decimals: 18})
	if err != nil {
		panic(err)
	}
	return e, addr
}

func callStaking(e *env.Env, contract, caller common.Address, input []byte) (err error, logs []*ethtypes.Log) {
	sdb := e.NewStateDB(e.Ctx, Coinbase)
	ctx := sdb.GetCurrentContext()
	msg := ethtypes.NewMessage(caller, &contract, 0, big.NewInt(0), 5_000_000, big.NewInt(0), big.NewInt(0), big.NewInt(0), input, nil, true)
	evm := e.EK.NewEVM(ctx, msg, e.EVMConfig(ctx, Coinbase, big.NewInt(0)), nil, sdb)
	_, _, err = evm.Call(corevm.AccountRef(caller), contract, input, 5_000_000, big.NewInt(0))
	return err, sdb.GetTransactionLogs()
}

// H_C11_1_CallerOnly: delegate / undelegate / redelegate / withdrawReward through the fork's real EVM.Call ->
// RunCustom -> the repo's staking executors, with the SDK staking / distribution message servers as recording
// stubs: exactly one native message is submitted, its delegator is the immediate caller, validator(s), amount and
// denomination are the decoded arguments; nothing is submitted when the call fails; the logs emitted
// (Delegate / Undelegate / WithdrawReward) match one-to-one the module events produced by that message -
// including the reward payout the distribution hook makes when an existing delegation is modified.
func H_C11_1_CallerOnly() {
	e, contract := stakingWorld()
	caller := []common.Address{X1, X2}[verif.Choice("caller", 2)]
	val := []common.Address{Val1, Val2}[verif.Choice("validator", 2)]
	amt := env.Amount("amount", 200)
	if verif.Bool("pendingRewards") {
		model.PendingRewards = env.Amount("rewards", 100)
	}
	model.StakingFails = verif.Bool("nativeMessageRejected")
	callerBech := sdk.AccAddress(caller.Bytes()).String()
	valBech := sdk.ValAddress(val.Bytes()).String()
	method := verif.Choice("method", 4)
	var input []byte
	var want []wantLog
	kind := ""
	pay := func() {
		if model.PendingRewards != nil && model.PendingRewards.Sign() > 0 {
			want = append(want, wantLog{withdrawTopic, caller, val, model.PendingRewards})
		}
	}
	switch method {
	case 0:
		kind = "delegate"
		input = stakingCall("delegate", val, amt)
		pay()
		want = append(want, wantLog{delegateTopic, caller, val, amt})
	case 1:
		kind = "undelegate"
		input = stakingCall("undelegate", val, amt)
		pay()
		want = append(want, wantLog{undelegateTopic, caller, val, amt})
	case 2:
		kind = "redelegate"
		input = stakingCall("redelegate", val, Val2, amt) // from val to Val2
		pay()
		want = append(want, wantLog{undelegateTopic, caller, val, amt}, wantLog{delegateTopic, caller, Val2, amt})
	case 3:
		kind = "withdraw"
		input = stakingCall("withdrawReward", val)
		pay()
	}
	err, logs := callStaking(e, contract, caller, input)
	if err != nil {
		// the frame was reverted: whatever the stub recorded was recorded inside the reverted frame; the property
		// is about what is submitted on success, and that a failing call emits no log
		verif.Assert("failed-call-emits-no-log", len(logs) == 0)
		verif.Reach("failed")
		return
	}
	verif.Reach("succeeded")
	verif.Assert("exactly-one-native-message", len(model.StakingLog) == 1)
	if len(model.StakingLog) != 1 {
		return
	}
	r := model.StakingLog[0]
	verif.Assert("native-message-kind", r.Kind == kind)
	verif.Assert("delegator-is-the-immediate-caller", r.Delegator == callerBech)
	if method == 2 {
		verif.Assert("validators-are-the-arguments", r.SrcVal == valBech && r.Validator == sdk.ValAddress(Val2.Bytes()).String())
	} else {
		verif.Assert("validators-are-the-arguments", r.Validator == valBech)
	}
	if method != 3 {
		verif.Assert("amount-and-denom-are-the-arguments", r.Amount.Cmp(amt) == 0 && r.Denom == model.BondDenom)
		verif.Assert("zero-amount-is-refused", amt.Sign() > 0)
	}
	checkLogs("logs", logs, want)
}

// H_C11_2_SignedMessage: delegateByActionMessage / withdrawRewardsByMessage: a native message is submitted only
// if the message's delegator equals the immediate caller AND the EIP-712 signature over exactly this message for
// the EVM's own chain id recovers to that delegator; the submitted native message carries the signed fields.
func H_C11_2_SignedMessage() {
	e, contract := stakingWorld()
	caller := []common.Address{X1, X2}[verif.Choice("caller", 2)]
	delegator := []common.Address{X1, X2}[verif.Choice("message.delegator", 2)]
	model.Eip712Recovered = []common.Address{X1, X2, X3}[verif.Choice("signature.recoversTo", 3)]
	model.Eip712Err = verif.Bool("signature.invalid")
	valBech := sdk.ValAddress(Val1.Bytes()).String()
	amt := env.Amount("amount", 200)
	var r32, s32 [32]byte
	var input []byte
	withdraw := verif.Bool("withdrawVariant")
	if withdraw {
		model.PendingRewards = big.NewInt(5)
		input = stakingCall("withdrawRewardsByMessage", cpcabi.WithdrawRewardMessage{Delegator: delegator, FromValidator: valBech}, r32, s32, uint8(27))
	} else {
		action := []string{cpcabi.StakingMessageActionDelegate, cpcabi.StakingMessageActionUndelegate}[verif.Choice("message.action", 2)]
		input = stakingCall("delegateByActionMessage", cpcabi.StakingMessage{Action: action, Delegator: delegator, Validator: valBech, Amount: amt, Denom: model.BondDenom, OldValidator: "-"}, r32, s32, uint8(27))
	}
	err, _ := callStaking(e, contract, caller, input)
	if err != nil {
		verif.Reach("refused")
		return
	}
	verif.Reach("accepted")
	verif.Assert("signed-message-delegator-is-the-caller", delegator == caller)
	verif.Assert("signature-recovers-to-the-delegator", !model.Eip712Err && model.Eip712Recovered == delegator)
	verif.Assert("signature-checked-for-the-evm-chain-id", model.Eip712ChainID != nil && model.Eip712ChainID.Cmp(big.NewInt(90909)) == 0)
	verif.Assert("exactly-one-native-message", len(model.StakingLog) == 1)
	if len(model.StakingLog) == 1 {
		rec := model.StakingLog[0]
		verif.Assert("native-message-acts-for-the-signer", rec.Delegator == sdk.AccAddress(delegator.Bytes()).String() && rec.Validator == valBech)
		if !withdraw {
			verif.Assert("native-message-carries-the-signed-amount", rec.Amount.Cmp(amt) == 0 && rec.Denom == model.BondDenom)
		}
	}
}

// H_C11_3_WithdrawRewards: withdrawRewards() with the distribution querier reporting outstanding rewards at two
// validators (symbolic integer and fractional parts in the bond denomination, optionally another denomination):
// the rewards are queried for the immediate caller; one native MsgWithdrawDelegatorReward is submitted for exactly
// the validators whose bond-denomination reward reaches the minimum (10^-3 of one coin), in the reported order,
// each with the caller as delegator; one WithdrawReward log per native message with the amount paid; the returned
// flag is true; with nothing at or above the minimum nothing is submitted (the call reverts).
func H_C11_3_WithdrawRewards() {
	e, contract := stakingWorld()
	caller := []common.Address{X1, X2}[verif.Choice("caller", 2)]
	callerBech := sdk.AccAddress(caller.Bytes()).String()
	vals := []common.Address{Val1, Val2}
	scale := new(big.Int).Exp(big.NewInt(10), big.NewInt(18), nil)
	minimum := new(big.Int).Exp(big.NewInt(10), big.NewInt(15), nil)
	n := verif.Choice("nRewardEntries", 3)
	var want []wantLog
	for i := 0; i < n; i++ {
		pfx := "reward" + string(rune('0'+i))
		r := model.RewardEntry{Validator: sdk.ValAddress(vals[i].Bytes()).String(), Amount: env.Amount(pfx+".amount", 100), Frac: env.Amount(pfx+".frac", 64), Other: big.NewInt(0)}
		verif.Assume(r.Frac.Cmp(scale) < 0)
		if verif.Bool(pfx + ".otherDenomToo") {
			r.Other = big.NewInt(7)
		}
		model.Rewards = append(model.Rewards, r)
		if r.Amount.Cmp(minimum) >= 0 {
			want = append(want, wantLog{withdrawTopic, caller, vals[i], r.Amount})
		}
	}
	sdb := e.NewStateDB(e.Ctx, Coinbase)
	ctx := sdb.GetCurrentContext()
	input := stakingCall("withdrawRewards")
	msg := ethtypes.NewMessage(caller, &contract, 0, big.NewInt(0), 5_000_000, big.NewInt(0), big.NewInt(0), big.NewInt(0), input, nil, true)
	evm := e.EK.NewEVM(ctx, msg, e.EVMConfig(ctx, Coinbase, big.NewInt(0)), nil, sdb)
	ret, _, err := evm.Call(corevm.AccountRef(caller), contract, input, 5_000_000, big.NewInt(0))
	if err != nil {
		// with nothing to withdraw the call reverts ("no old-event found") instead of returning false: no effect either way
		verif.Assert("call-fails-only-when-nothing-is-withdrawable", len(want) == 0)
		verif.Assert("failed-call-emits-no-log", len(sdb.GetTransactionLogs()) == 0)
		verif.Reach("nothing-to-withdraw")
		return
	}
	for _, q := range model.RewardsQueriedFor {
		verif.Assert("rewards-queried-for-the-immediate-caller", q == callerBech)
	}
	verif.Assert("one-native-message-per-validator-above-the-minimum", len(model.StakingLog) == len(want))
	if len(model.StakingLog) != len(want) {
		return
	}
	for i, rec := range model.StakingLog {
		verif.Assert("native-message-is-a-withdrawal-for-the-caller", rec.Kind == "withdraw" && rec.Delegator == callerBech)
		verif.Assert("native-message-validator-in-reported-order", rec.Validator == sdk.ValAddress(want[i].val.Bytes()).String())
	}
	checkLogs("logs", sdb.GetTransactionLogs(), want)
	out, ok := model.AbiOut(ret)
	verif.Assert("returned-flag-tells-whether-anything-was-withdrawn", ok && len(out) == 1 && out[0].(bool) == (len(want) > 0))
	if len(want) == 2 {
		verif.Reach("withdrew-from-both")
	}
}

// H_C11_4_Views: the view methods report the numbers of the native queries, asked for the ARGUMENT address (not
// the caller): delegatedValidators / delegationOf / totalDelegationOf / rewardOf / rewardsOf with the staking and
// distribution queries as stubs holding symbolic figures (delegation shares at a validator with exchange rate 3,
// bonded total, per-validator and total rewards with fractional parts and a second denomination); the views change
// nothing and submit no native message, also under STATICCALL.
func H_C11_4_Views() {
	e, contract := stakingWorld()
	caller := X3
	who := []common.Address{X1, X2}[verif.Choice("who", 2)]
	whoBech := sdk.AccAddress(who.Bytes()).String()
	other := X1
	if who == X1 {
		other = X2
	}
	val1, val2 := sdk.ValAddress(Val1.Bytes()).String(), sdk.ValAddress(Val2.Bytes()).String()
	scale := new(big.Int).Exp(big.NewInt(10), big.NewInt(18), nil)
	// staking state: who delegates to Val1 (symbolic shares incl. fractional part), the other account to Val2
	sharesRaw := env.Amount("shares.raw", 120) // in 10^-18 units
	shares := sdkmath.LegacyNewDecFromBigIntWithPrec(sharesRaw, 18)
	model.Validators = map[string]stakingtypes.Validator{
		val1: {OperatorAddress: val1, Status: stakingtypes.Bonded, Tokens: sdkmath.NewInt(3000), DelegatorShares: sdkmath.LegacyNewDec(1000)},
		val2: {OperatorAddress: val2, Status: stakingtypes.Bonded, Tokens: sdkmath.NewInt(500), DelegatorShares: sdkmath.LegacyNewDec(500)},
	}
	model.Delegations = []stakingtypes.Delegation{
		{DelegatorAddress: whoBech, ValidatorAddress: val1, Shares: shares},
		{DelegatorAddress: sdk.AccAddress(other.Bytes()).String(), ValidatorAddress: val2, Shares: sdkmath.LegacyNewDec(77)},
	}
	model.Bonded = env.Amount("bonded", 128)
	r1 := model.RewardEntry{Validator: val1, Amount: env.Amount("reward1.amount", 100), Frac: env.Amount("reward1.frac", 64), Other: big.NewInt(9)}
	r2 := model.RewardEntry{Validator: val2, Amount: env.Amount("reward2.amount", 100), Frac: env.Amount("reward2.frac", 64), Other: big.NewInt(0)}
	verif.Assume(r1.Frac.Cmp(scale) < 0 && r2.Frac.Cmp(scale) < 0)
	model.Rewards = []model.RewardEntry{r1, r2}
	before := e.MS.Snapshot()

	sdb := e.NewStateDB(e.Ctx, Coinbase)
	ctx := sdb.GetCurrentContext()
	static := verif.Bool("static")
	call := func(input []byte) ([]interface{}, error) {
		msg := ethtypes.NewMessage(caller, &contract, 0, big.NewInt(0), 5_000_000, big.NewInt(0), big.NewInt(0), big.NewInt(0), input, nil, true)
		evm := e.EK.NewEVM(ctx, msg, e.EVMConfig(ctx, Coinbase, big.NewInt(0)), nil, sdb)
		var ret []byte
		var err error
		if static {
			ret, _, err = evm.StaticCall(corevm.AccountRef(caller), contract, input, 5_000_000)
		} else {
			ret, _, err = evm.Call(corevm.AccountRef(caller), contract, input, 5_000_000, big.NewInt(0))
		}
		if err != nil {
			return nil, err
		}
		out, ok := model.AbiOut(ret)
		if !ok {
			panic("undecodable view output")
		}
		return out, nil
	}
	askedFor := func(kind, del, val string) bool {
		n := 0
		for _, q := range model.QueryLog {
			if q == kind+"|"+del+"|"+val {
				n++
			} else if len(q) >= len(kind) && q[:len(kind)] == kind {
				return false
			}
		}
		return n >= 1
	}
	switch verif.Choice("view", 5) {
	case 0:
		out, err := call(stakingCall("delegatedValidators", who))
		verif.Assert("delegatedValidators-ok", err == nil && len(out) == 1)
		if err == nil && len(out) == 1 {
			vs := out[0].([]common.Address)
			verif.Assert("delegatedValidators-lists-the-argument's-validators", len(vs) == 1 && vs[0] == Val1)
		}
		verif.Assert("native-query-for-the-argument-address", askedFor("delegations", whoBech, ""))
	case 1:
		v := []common.Address{Val1, Val2}[verif.Choice("validator", 2)]
		out, err := call(stakingCall("delegationOf", who, v))
		verif.Assert("delegationOf-ok", err == nil && len(out) == 1)
		if err == nil && len(out) == 1 {
			want := big.NewInt(0)
			if v == Val1 {
				// tokens = shares * 3000 / 1000, truncated
				want = new(big.Int).Quo(new(big.Int).Mul(sharesRaw, big.NewInt(3)), scale)
			}
			verif.Assert("delegationOf-is-tokens-from-shares", out[0].(*big.Int).Cmp(want) == 0)
		}
		verif.Assert("native-query-for-the-argument-address", askedFor("delegation", whoBech, sdk.ValAddress(v.Bytes()).String()))
	case 2:
		out, err := call(stakingCall("totalDelegationOf", who))
		verif.Assert("totalDelegationOf-is-the-native-bonded-total", err == nil && len(out) == 1 && out[0].(*big.Int).Cmp(model.Bonded) == 0)
		verif.Assert("native-query-for-the-argument-address", askedFor("bonded", whoBech, ""))
	case 3:
		v := []common.Address{Val1, Val2}[verif.Choice("validator", 2)]
		out, err := call(stakingCall("rewardOf", who, v))
		want := r1.Amount
		if v == Val2 {
			want = r2.Amount
		}
		verif.Assert("rewardOf-is-the-truncated-native-reward", err == nil && len(out) == 1 && out[0].(*big.Int).Cmp(want) == 0)
		verif.Assert("native-query-for-the-argument-address", askedFor("rewards", whoBech, sdk.ValAddress(v.Bytes()).String()))
	case 4:
		out, err := call(stakingCall("rewardsOf", who))
		// total = truncation of the decimal sum
		sumRaw := new(big.Int).Add(new(big.Int).Add(new(big.Int).Mul(r1.Amount, scale), r1.Frac), new(big.Int).Add(new(big.Int).Mul(r2.Amount, scale), r2.Frac))
		want := new(big.Int).Quo(sumRaw, scale)
		verif.Assert("rewardsOf-is-the-truncated-native-total", err == nil && len(out) == 1 && out[0].(*big.Int).Cmp(want) == 0)
		for _, q := range model.RewardsQueriedFor {
			verif.Assert("native-query-for-the-argument-address", q == whoBech)
		}
		verif.Assert("total-rewards-queried", len(model.RewardsQueriedFor) >= 1)
	}
	verif.Assert("views-submit-no-native-message", len(model.StakingLog) == 0)
	verif.Assert("views-emit-no-log", len(sdb.GetTransactionLogs()) == 0)
	verif.Assert("views-leave-every-store", model.SameContent(before, e.MS))
	verif.Reach("view-answered")
}

// H_C01_3_StakingTransferChoice: the validator that transfer() of the staking precompile delegates to is a
// function of the staking state alone: executed twice from the same state - with the keeper returning the
// caller's delegations / the bonded validators in two different orders and with independently chosen iteration
// orders for every Go map ranged over - it submits the same native MsgDelegate. Validators carry symbolic
// token amounts, ties included.
func H_C01_3_StakingTransferChoice() {
	n := 2 + verif.Choice("nValidators", 2)
	ops := []common.Address{Val1, Val2, X3}
	toks := make([]*big.Int, n)
	for i := 0; i < n; i++ {
		toks[i] = env.Amount("tokens"+string(rune('0'+i)), 64)
	}
	delegated := verif.Bool("callerHasDelegations")
	amt := big.NewInt(1000)
	run := func(reverse bool) (string, error) {
		e, contract := stakingWorld()
		e.SetBalance(X1[:], model.BondDenom, big.NewInt(5000))
		model.Validators = map[string]stakingtypes.Validator{}
		model.Delegations, model.LastValidators = nil, nil
		for k := 0; k < n; k++ {
			i := k
			if reverse {
				i = n - 1 - k
			}
			op := sdk.ValAddress(ops[i].Bytes()).String()
			model.Validators[op] = stakingtypes.Validator{OperatorAddress: op, Status: stakingtypes.Bonded, Tokens: sdkmath.NewIntFromBigInt(toks[i])}
			model.LastValidators = append(model.LastValidators, op)
			if delegated {
				model.Delegations = append(model.Delegations, stakingtypes.Delegation{DelegatorAddress: sdk.AccAddress(X1.Bytes()).String(), ValidatorAddress: op})
			}
		}
		verif.MapOrder(true)
		err, _ := callStaking(e, contract, X1, stakingCall("transfer", X1, amt))
		verif.MapOrder(false)
		if err != nil {
			verif.Note("err", err.Error())
			return "", err
		}
		if len(model.StakingLog) != 1 {
			return "", nil
		}
		return model.StakingLog[0].Validator, nil
	}
	v1, e1 := run(false)
	v2, e2 := run(true)
	verif.Assert("same-outcome", (e1 == nil) == (e2 == nil))
	if e1 != nil || e2 != nil {
		return
	}
	verif.Assert("same-validator-chosen-whatever-the-order", v1 == v2 && v1 != "")
	verif.Reach("chosen")
}
