//go:build verif

package hcpc

import (
	"math/big"

	sdk "github.com/cosmos/cosmos-sdk/types"
	authtypes "github.com/cosmos/cosmos-sdk/x/auth/types"
	"github.com/ethereum/go-ethereum/common"
	"github.com/ethereum/go-ethereum/core"
	ethtypes "github.com/ethereum/go-ethereum/core/types"
	corevm "github.com/ethereum/go-ethereum/core/vm"

	cpckeeper "github.com/EscanBE/evermint/v12/x/cpc/keeper"
	evmkeeper "github.com/EscanBE/evermint/v12/x/evm/keeper"
	cpctypes "github.com/EscanBE/evermint/v12/x/cpc/types"
	"github.com/EscanBE/evermint/v12/zzverif/env"
	"github.com/EscanBE/evermint/v12/zzverif/verif"
)

var (
	govAddr  = authtypes.NewModuleAddress("gov")
	deployer = sdk.AccAddress(X1[:])
	other2   = sdk.AccAddress(X2[:])
	outsider = sdk.AccAddress(X3[:])
)

// registry is the observable registry state: contract metas in store order, denomination index, params.
type registry struct {
	metas  []cpctypes.CustomPrecompiledContractMeta
	params cpctypes.Params
	idx    map[string]*common.Address
}

var denoms = []string{Denom, "third", env.EvmDenom}

func snapshot(e *env.Env, ctx sdk.Context) *registry {
	r := &registry{metas: e.CK.GetAllCustomPrecompiledContractsMeta(ctx), params: e.CK.GetParams(ctx), idx: map[string]*common.Address{}}
	for _, d := range denoms {
		r.idx[d] = e.CK.GetErc20CustomPrecompiledContractAddressByMinDenom(ctx, d)
	}
	return r
}

func sameRegistry(a, b *registry) bool {
	if len(a.metas) != len(b.metas) || len(a.params.WhitelistedDeployers) != len(b.params.WhitelistedDeployers) || a.params.ProtocolVersion != b.params.ProtocolVersion {
		return false
	}
	for i := range a.metas {
		if common.BytesToAddress(a.metas[i].Address) != common.BytesToAddress(b.metas[i].Address) || a.metas[i].CustomPrecompiledType != b.metas[i].CustomPrecompiledType ||
			a.metas[i].Name != b.metas[i].Name || a.metas[i].TypedMeta != b.metas[i].TypedMeta || a.metas[i].Disabled != b.metas[i].Disabled {
			return false
		}
	}
	for i := range a.params.WhitelistedDeployers {
		if a.params.WhitelistedDeployers[i] != b.params.WhitelistedDeployers[i] {
			return false
		}
	}
	for _, d := range denoms {
		if (a.idx[d] == nil) != (b.idx[d] == nil) || (a.idx[d] != nil && *a.idx[d] != *b.idx[d]) {
			return false
		}
	}
	return true
}

// invariant: unique addresses; every ERC-20 meta has exactly its denomination index entry and vice versa; at
// most one ERC-20 per denomination.
func (r *registry) invariant(e *env.Env) bool {
	seen := map[common.Address]bool{}
	perDenom := map[string]int{}
	for _, m := range r.metas {
		a := common.BytesToAddress(m.Address)
		if seen[a] {
			return false
		}
		seen[a] = true
		if m.CustomPrecompiledType == cpctypes.CpcTypeErc20 {
			c := cpckeeper.NewErc20CustomPrecompiledContract(m, e.CK)
			type hasMeta interface {
				GetErc20Metadata() cpctypes.Erc20CustomPrecompiledContractMeta
			}
			d := c.(hasMeta).GetErc20Metadata().MinDenom
			perDenom[d]++
			if r.idx[d] == nil || *r.idx[d] != a {
				return false
			}
		}
	}
	for _, d := range denoms {
		if perDenom[d] > 1 {
			return false
		}
		if r.idx[d] != nil && perDenom[d] != 1 {
			return false
		}
	}
	return true
}

func whitelistOf(choice int) []string {
	switch choice {
	case 1:
		return []string{deployer.String()}
	case 2:
		return []string{deployer.String(), other2.String()}
	}
	return nil
}

// H_C17_1_RegistryStep: from a registry state reachable by genesis + earlier deployments (an optional existing
// ERC-20 contract and staking contract, a symbolic whitelist), optionally after an UpdateParams that was executed
// on a branch that is then DISCARDED (a failed proposal / reverted transaction), one message through the real
// message server (DeployErc20Contract, DeployStakingContract, UpdateParams) with symbolic sender and arguments:
// the invariant is preserved, a deployment succeeds only for a whitelisted sender, a denomination with positive
// supply and no previous contract, the new address is fresh, a failed message changes nothing, the protocol version never decreases.
func H_C17_1_RegistryStep() {
	e := env.New(Denom, "third")
	e.SetSupply(Denom, big.NewInt(1000))
	e.SetSupply(env.EvmDenom, big.NewInt(1000))
	// "third" has no supply
	wl := verif.Choice("whitelist", 3)
	if err := e.CK.SetParams(e.Ctx, cpctypes.Params{ProtocolVersion: 1, WhitelistedDeployers: whitelistOf(wl)}); err != nil {
		panic(err)
	}
	if verif.Bool("existingErc20") {
		if _, err := e.CK.DeployErc20CustomPrecompiledContract(e.Ctx, "Other", cpctypes.Erc20CustomPrecompiledContractMeta{Symbol: "OTH", Decimals: 6, MinDenom: Denom}); err != nil {
			panic(err)
		}
	}
	if verif.Bool("existingStaking") {
		if _, err := e.CK.DeployStakingCustomPrecompiledContract(e.Ctx, cpctypes.StakingCustomPrecompiledContractMeta{Symbol: "STK", Decimals: 18}); err != nil {
			panic(err)
		}
	}
	srv := cpckeeper.NewMsgServerImpl(e.CK)
	if verif.Bool("discardedParamsUpdate") {
		// a governance update executed on a state branch that never gets written
		branch, _ := e.Ctx.CacheContext()
		_, _ = srv.UpdateParams(branch, &cpctypes.MsgUpdateParams{Authority: govAddr.String(), NewParams: cpctypes.Params{ProtocolVersion: 1, WhitelistedDeployers: []string{outsider.String()}}})
	}
	before := snapshot(e, e.Ctx)
	verif.Assert("initial-invariant", before.invariant(e))

	senders := []sdk.AccAddress{deployer, other2, outsider, govAddr}
	sender := senders[verif.Choice("sender", len(senders))]
	// the whitelist in force is the one written to the committed state (the harness knows it: it does not ask
	// the keeper), i.e. independent of anything cached by the discarded update above
	whitelisted := false
	for _, w := range whitelistOf(wl) {
		if w == sender.String() {
			whitelisted = true
		}
	}
	verif.Assert("committed-params-unaffected-by-discarded-branch", len(before.params.WhitelistedDeployers) == len(whitelistOf(wl)))
	msgKind := verif.Choice("msg", 3)
	ctx, write := e.Ctx.CacheContext()
	var err error
	var newAddr string
	denom := ""
	panicked := verif.Try(func() {
		switch msgKind {
		case 0:
			denom = denoms[verif.Choice("denom", len(denoms))]
			var resp *cpctypes.MsgDeployErc20ContractResponse
			resp, err = srv.DeployErc20Contract(ctx, &cpctypes.MsgDeployErc20ContractRequest{Authority: sender.String(), Name: "Token", Symbol: "TKN", Decimals: 6, MinDenom: denom})
			if err == nil {
				newAddr = resp.ContractAddress
			}
		case 1:
			var resp *cpctypes.MsgDeployStakingContractResponse
			resp, err = srv.DeployStakingContract(ctx, &cpctypes.MsgDeployStakingContractRequest{Authority: sender.String(), Symbol: "STK", Decimals: 18})
			if err == nil {
				newAddr = resp.ContractAddress
			}
		case 2:
			pv := uint32(verif.Choice("newProtocolVersion", 3)) // 0 (invalid), 1, 2 (beyond latest)
			_, err = srv.UpdateParams(ctx, &cpctypes.MsgUpdateParams{Authority: sender.String(), NewParams: cpctypes.Params{ProtocolVersion: pv, WhitelistedDeployers: whitelistOf(verif.Choice("newWhitelist", 3))}})
		}
	})
	ok := !panicked && err == nil
	if ok {
		write()
	}
	after := snapshot(e, e.Ctx)
	verif.Assert("invariant-preserved", after.invariant(e))
	verif.Assert("protocol-version-never-decreases", after.params.ProtocolVersion >= before.params.ProtocolVersion)
	if !ok {
		verif.Assert("failed-message-changes-nothing", sameRegistry(before, after))
		verif.Reach("failed")
		return
	}
	verif.Reach("succeeded")
	switch msgKind {
	case 0:
		verif.Assert("erc20-deploy-only-by-whitelisted", whitelisted)
		verif.Assert("erc20-deploy-only-with-positive-supply", denom != "third")
		verif.Assert("erc20-deploy-only-once-per-denom", before.idx[denom] == nil)
		verif.Assert("erc20-deploy-adds-exactly-one-contract", len(after.metas) == len(before.metas)+1)
		fresh := true
		for _, m := range before.metas {
			if common.BytesToAddress(m.Address).Hex() == common.HexToAddress(newAddr).Hex() {
				fresh = false
			}
		}
		verif.Assert("new-address-is-fresh", fresh)
		verif.Assert("denom-index-points-to-new-contract", after.idx[denom] != nil && after.idx[denom].Hex() == common.HexToAddress(newAddr).Hex())
	case 1:
		verif.Assert("staking-deploy-only-by-whitelisted", whitelisted)
		verif.Assert("staking-deploy-only-once", len(after.metas) == len(before.metas)+1)
	case 2:
		verif.Assert("params-update-only-by-governance", sender.Equals(govAddr))
	}
	// types of existing contracts never change
	same := true
	for _, mb := range before.metas {
		found := false
		for _, ma := range after.metas {
			if common.BytesToAddress(ma.Address) == common.BytesToAddress(mb.Address) {
				found = true
				same = same && ma.CustomPrecompiledType == mb.CustomPrecompiledType
			}
		}
		same = same && found
	}
	verif.Assert("existing-contracts-keep-their-type", same)
}

// H_C17_3_Exposure: exactly the registered, enabled contracts are callable from an EVM built by the real
// Keeper.NewEVM, whatever the top-level message looks like (call data of 0, 2 or 4+ bytes, call or creation):
// a registered enabled contract answers, a disabled one cannot be executed, an unregistered address is not a precompile.
func H_C17_3_Exposure() {
	w := newWorld()
	e := w.e
	stakingAddr, err := e.CK.DeployStakingCustomPrecompiledContract(e.Ctx, cpctypes.StakingCustomPrecompiledContractMeta{Symbol: "STK", Decimals: 18})
	if err != nil {
		panic(err)
	}
	disabled := verif.Bool("erc20Disabled")
	if disabled {
		meta := e.CK.GetCustomPrecompiledContractMeta(e.Ctx, w.contract)
		meta.Disabled = true
		if err := e.CK.SetCustomPrecompiledContractMeta(e.Ctx, *meta, false); err != nil {
			panic(err)
		}
	}
	sdb := e.NewStateDB(e.Ctx, Coinbase)
	ctx := sdb.GetCurrentContext()
	// the top-level message: a call of some other account with short or long data, or a creation
	var data []byte
	switch verif.Choice("topLevelDataLen", 3) {
	case 1:
		data = []byte{1, 2}
	case 2:
		data = []byte{1, 2, 3, 4, 5}
	}
	to := &X2
	if verif.Bool("topLevelIsCreation") {
		to = nil
	}
	msg := ethtypes.NewMessage(X1, to, 0, big.NewInt(0), 1_000_000, big.NewInt(0), big.NewInt(0), big.NewInt(0), data, nil, true)
	evm := e.EK.NewEVM(ctx, msg, e.EVMConfig(ctx, Coinbase, big.NewInt(0)), nil, sdb)
	// what a contract executed by this EVM would reach with a nested call
	ret, _, cerr := evm.StaticCall(corevm.AccountRef(X2), w.contract, callData("totalSupply"), 100_000)
	if disabled {
		verif.Assert("disabled-contract-cannot-be-executed", cerr != nil)
		verif.Reach("disabled")
	} else {
		verif.Assert("registered-contract-is-callable", cerr == nil && len(ret) > 0 && outputs("totalSupply", ret)[0].(*big.Int).Cmp(e.Supply(ctx, Denom)) == 0)
		verif.Reach("enabled")
	}
	addrs := evm.GetCustomPrecompiledContractsAddress()
	has := func(a common.Address) bool {
		for _, x := range addrs {
			if x == a {
				return true
			}
		}
		return false
	}
	verif.Assert("registered-addresses-exposed", has(w.contract) && has(stakingAddr))
	verif.Assert("unregistered-address-not-exposed", !has(X3))
	ret2, _, err2 := evm.StaticCall(corevm.AccountRef(X2), X3, callData("totalSupply"), 100_000)
	verif.Assert("unregistered-address-is-an-empty-account", err2 == nil && len(ret2) == 0)
}

// H_C02_4_WarmSet: after the real state transition (keeper.ApplyMessage -> TransitionDb -> PrepareAccessList)
// the warm address set is what go-ethereum's Prepare produces plus the documented differences: sender,
// destination, the standard precompiles, the registered custom precompiles (and the coinbase from Shanghai on) -
// and nothing else: in particular neither an unrelated account nor the zero address.
func H_C02_4_WarmSet() {
	w := newWorld()
	e := w.e
	sdb := e.NewStateDB(e.Ctx, Coinbase)
	ctx := sdb.GetCurrentContext()
	e.AK.SetAccount(ctx, &authtypes.BaseAccount{Address: sdk.AccAddress(X1[:]).String(), AccountNumber: 77, Sequence: 0})
	to := X2
	msg := ethtypes.NewMessage(X1, &to, 0, big.NewInt(0), 100_000, big.NewInt(0), big.NewInt(0), big.NewInt(0), nil, nil, false)
	evm := e.EK.NewEVM(ctx, msg, e.EVMConfig(ctx, Coinbase, big.NewInt(0)), nil, sdb)
	gp := core.GasPool(100_000)
	_, err := evmkeeper.ApplyMessage(evm, msg, &gp, nil)
	verif.Assert("plain-call-executes", err == nil)
	verif.Assert("sender-and-destination-warm", sdb.AddressInAccessList(X1) && sdb.AddressInAccessList(X2))
	verif.Assert("standard-precompile-warm", sdb.AddressInAccessList(common.BytesToAddress([]byte{1})))
	verif.Assert("custom-precompile-warm", sdb.AddressInAccessList(w.contract))
	verif.Assert("unrelated-account-cold", !sdb.AddressInAccessList(X3))
	verif.Assert("zero-address-cold", !sdb.AddressInAccessList(common.Address{}))
}

// H_C01_4_NodeLocalReads: what a block execution sees does not depend on node-local reads of committed state
// interleaved with it (queries, CheckTx, simulations run on other branches of the same process): a precompile is
// deployed on the block's state branch; then - with or without a read of the precompile list on the committed
// (parent) context in between - an EVM built on the block's branch must expose the same contracts.
func H_C01_4_NodeLocalReads() {
	run := func(interleavedRead bool) (bool, int) {
		e := env.New(Denom)
		e.SetSupply(Denom, big.NewInt(1000))
		_ = e.CK.GetAllCustomPrecompiledContracts(e.Ctx) // the process has served requests before
		block, _ := e.Ctx.CacheContext()
		addr, err := e.CK.DeployErc20CustomPrecompiledContract(block, "Other", cpctypes.Erc20CustomPrecompiledContractMeta{Symbol: "OTH", Decimals: 6, MinDenom: Denom})
		if err != nil {
			panic(err)
		}
		if interleavedRead {
			_ = e.CK.GetAllCustomPrecompiledContracts(e.Ctx) // a query on the committed state
			_ = e.CK.GetParams(e.Ctx)
		}
		sdb := e.NewStateDB(block, Coinbase)
		ctx := sdb.GetCurrentContext()
		to := X2
		msg := ethtypes.NewMessage(X1, &to, 0, big.NewInt(0), 100_000, big.NewInt(0), big.NewInt(0), big.NewInt(0), []byte{1, 2, 3, 4}, nil, true)
		evm := e.EK.NewEVM(ctx, msg, e.EVMConfig(ctx, Coinbase, big.NewInt(0)), nil, sdb)
		addrs := evm.GetCustomPrecompiledContractsAddress()
		found := false
		n := 0
		for _, a := range addrs {
			if a == addr {
				found = true
			}
			if a != (common.Address{}) {
				n++
			}
		}
		return found, n
	}
	f1, n1 := run(false)
	f2, n2 := run(true)
	verif.Assert("deployed-contract-exposed-in-its-block", f1)
	verif.Assert("exposure-independent-of-node-local-reads", f1 == f2 && n1 == n2)
}
