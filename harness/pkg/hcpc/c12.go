//go:build verif

package hcpc

import (
	"bytes"
	"encoding/hex"
	"math/big"

	"github.com/ethereum/go-ethereum/common"
	ethtypes "github.com/ethereum/go-ethereum/core/types"
	corevm "github.com/ethereum/go-ethereum/core/vm"

	cpctypes "github.com/EscanBE/evermint/v12/x/cpc/types"
	"github.com/EscanBE/evermint/v12/zzverif/env"
	"github.com/EscanBE/evermint/v12/zzverif/model"
	"github.com/EscanBE/evermint/v12/zzverif/verif"
)

const (
	ckCall = iota
	ckStaticCall
	ckDelegateCall
	ckCallCode
	nCallKinds
)

// H_C12_1_StaticContext: a custom precompile reached in a read-only context - directly by STATICCALL, or by
// CALL / DELEGATECALL / CALLCODE from a frame that itself runs under a STATICCALL ancestor (the interpreter's
// static flag is set, as an enclosing frame's interpreter.Run does) - changes no state and emits no log, for
// every state-changing ERC-20 method and symbolic arguments. The fork's real EVM.Call / StaticCall /
// DelegateCall / CallCode -> RunPrecompiledContract -> RunCustom -> the repo's wrapper and executors run.
func H_C12_1_StaticContext() {
	w := newWorld()
	e := w.e
	sdb := e.NewStateDB(e.Ctx, Coinbase)
	caller := parties[verif.Choice("caller", 3)] // X1..X3
	a1 := pick("addr1")
	amt := env.Amount("amount", 256)
	// give the call every chance to succeed: an unlimited allowance for the caller on a1's coins
	if a1 != Zero {
		e.CK.SetErc20CpcAllowance(sdb.GetCurrentContext(), a1, caller, MaxU256)
		w.ref.Allow[[2]common.Address{a1, caller}] = MaxU256
	}
	var input []byte
	switch verif.Choice("method", nMethods) {
	case mTransfer:
		input = callData("transfer", a1, amt)
	case mTransferFrom:
		input = callData("transferFrom", a1, X3, amt)
	case mApprove:
		input = callData("approve", a1, amt)
	case mBurn:
		input = callData("burn", amt)
	case mBurnFrom:
		input = callData("burnFrom", a1, amt)
	}
	kind := verif.Choice("callKind", nCallKinds)
	staticAncestor := verif.Bool("staticAncestor")
	ctx := sdb.GetCurrentContext()
	msg := ethtypes.NewMessage(caller, &w.contract, 0, big.NewInt(0), 1_000_000, big.NewInt(0), big.NewInt(0), big.NewInt(0), input, nil, true)
	evm := e.EK.NewEVM(ctx, msg, e.EVMConfig(ctx, Coinbase, big.NewInt(0)), nil, sdb)
	evm.Interpreter().VerifSetReadOnly(staticAncestor)
	logs0 := len(sdb.GetTransactionLogs())
	var err error
	ref := corevm.AccountRef(caller)
	switch kind {
	case ckCall:
		// under a static ancestor go-ethereum's opCall only lets a CALL through with value 0
		_, _, err = evm.Call(ref, w.contract, input, 1_000_000, big.NewInt(0))
	case ckStaticCall:
		_, _, err = evm.StaticCall(ref, w.contract, input, 1_000_000)
	case ckDelegateCall:
		_, _, err = evm.DelegateCall(ref, w.contract, input, 1_000_000)
	case ckCallCode:
		_, _, err = evm.CallCode(ref, w.contract, input, 1_000_000, big.NewInt(0))
	}
	readOnlyCtx := staticAncestor || kind == ckStaticCall
	if !readOnlyCtx {
		if err == nil {
			verif.Reach("write-succeeds-outside-static-context")
		}
		return
	}
	unchanged := verif.And(w.sameAsRef(sdb), len(sdb.GetTransactionLogs()) == logs0)
	// known finding C12-F7 (in the go-ethereum fork, a dependency): the static flag of an ancestor frame is not
	// passed to custom precompiles reached by CALL / DELEGATECALL / CALLCODE
	verif.AssertKF("no-state-change-or-log-in-static-context", unchanged, "C12-F7", staticAncestor && kind != ckStaticCall)
	if kind == ckStaticCall {
		verif.Assert("staticcall-of-write-method-fails", err != nil)
		verif.Reach("staticcall-rejected")
	}
}

// H_C12_2_ReadOnlyMethods: methods declared read-only change nothing, in any context.
func H_C12_2_ReadOnlyMethods() {
	w := newWorld()
	e := w.e
	if verif.Bool("secondContractWrittenDirectly") {
		// a contract record that did not go through DeployErc20CustomPrecompiledContract (e.g. it predates a
		// software upgrade): written with the keeper's store API; views are then called on THIS contract
		addr := common.HexToAddress("0xcc00000000000000000000000000000000000099")
		meta := cpctypes.CustomPrecompiledContractMeta{Address: addr.Bytes(), CustomPrecompiledType: cpctypes.CpcTypeErc20, Name: "Evm Token",
			TypedMeta: string(model.MustMarshalJson(cpctypes.Erc20CustomPrecompiledContractMeta{Symbol: "EVM", Decimals: 18, MinDenom: env.EvmDenom}))}
		if !verif.Symbolic() {
			meta.TypedMeta = `{"symbol":"EVM","decimals":18,"min_denom":"wei"}`
		}
		if err := e.CK.SetCustomPrecompiledContractMeta(e.Ctx, meta, true); err != nil {
			panic(err)
		}
		w.contract = addr
	}
	wholeBefore := e.MS.Snapshot()
	sdb := e.NewStateDB(e.Ctx, Coinbase)
	who := pick("who")
	var input []byte
	views := []string{"name", "symbol", "decimals", "totalSupply", "balanceOf", "allowance"}
	switch v := views[verif.Choice("view", len(views))]; v {
	case "balanceOf":
		input = callData(v, who)
	case "allowance":
		input = callData(v, who, X1)
	default:
		input = callData(v)
	}
	logs0 := len(sdb.GetTransactionLogs())
	_, err := w.call(sdb, X2, input, verif.Bool("static"))
	verif.Assert("view-succeeds", err == nil)
	verif.Assert("view-changes-nothing", verif.And(w.sameAsRef(sdb), len(sdb.GetTransactionLogs()) == logs0))
	// not even after commit: no store of any module differs (apart from the account the EVM creates for the
	// precompile address when it is called the first time)
	_ = sdb.CommitMultiStore(false)
	verif.Assert("view-leaves-bank-and-cpc-stores", verif.And(model.SameKV(wholeBefore.KV(model.BankKey), e.MS.KV(model.BankKey)), model.SameKV(wholeBefore.KV(env.CpcKey), e.MS.KV(env.CpcKey))))
}

// H_C12_3_MethodTable (concrete enumeration over the real registry): every state-changing method of every
// contract type charges a non-zero gas cost, selectors are 4 bytes and unique per contract.
func H_C12_3_MethodTable() {
	e := env.New(Denom)
	e.SetSupply(Denom, big.NewInt(1))
	if _, err := e.CK.DeployErc20CustomPrecompiledContract(e.Ctx, "Other", cpctypes.Erc20CustomPrecompiledContractMeta{Symbol: "OTH", Decimals: 6, MinDenom: Denom}); err != nil {
		panic(err)
	}
	if _, err := e.CK.DeployStakingCustomPrecompiledContract(e.Ctx, cpctypes.StakingCustomPrecompiledContractMeta{Symbol: "STK", Decimals: 18}); err != nil {
		panic(err)
	}
	if _, err := e.CK.DeployBech32CustomPrecompiledContract(e.Ctx); err != nil {
		panic(err)
	}
	contracts := e.CK.GetAllCustomPrecompiledContracts(e.Ctx)
	verif.Assert("three-contract-types-registered", len(contracts) == 3)
	nWrite := 0
	kinds := map[uint32]string{cpctypes.CpcTypeErc20: "erc20", cpctypes.CpcTypeStaking: "staking", cpctypes.CpcTypeBech32: "bech32"}
	for _, c := range contracts {
		ex := c.GetMethodExecutors()
		verif.Assert("contract-has-methods", len(ex) > 0)
		abi := model.AbiMutability[kinds[c.GetMetadata().CustomPrecompiledType]]
		verif.Assert("every-abi-function-has-an-executor", len(ex) == len(abi))
		for i, m := range ex {
			// the ABI JSON in the tree declares which functions are views: an executor may call itself read-only
			// (and thereby be reachable under STATICCALL, for free) only if the ABI says view / pure
			mut, known := abi[hex.EncodeToString(m.Method4BytesSignatures())]
			verif.Assert("executor-selector-is-in-the-abi", known)
			verif.Assert("read-only-flag-matches-abi-mutability", m.ReadOnly() == (mut == "view" || mut == "pure"))
			verif.Assert("selector-is-4-bytes", len(m.Method4BytesSignatures()) == 4)
			if !m.ReadOnly() {
				nWrite++
				verif.Assert("state-changing-method-charges-gas", m.RequireGas() > 0)
			}
			for j := 0; j < i; j++ {
				verif.Assert("selectors-unique-per-contract", !bytes.Equal(ex[j].Method4BytesSignatures(), m.Method4BytesSignatures()))
			}
		}
	}
	verif.Assert("write-methods-exist", nWrite >= 5)
}
