//go:build verif

package htx

import (
	"errors"
	"math/big"

	"github.com/ethereum/go-ethereum/common"
	"github.com/ethereum/go-ethereum/core"
	corevm "github.com/ethereum/go-ethereum/core/vm"

	evmkeeper "github.com/EscanBE/evermint/v12/x/evm/keeper"
	evmtypes "github.com/EscanBE/evermint/v12/x/evm/types"
	"github.com/EscanBE/evermint/v12/zzverif/env"
	evmvm "github.com/EscanBE/evermint/v12/x/evm/vm"
	"github.com/EscanBE/evermint/v12/zzverif/model"
	"github.com/EscanBE/evermint/v12/zzverif/verif"
)

type transitionView struct {
	senderNonce, contrNonce uint64
	sender, contr, third, plain *big.Int
	slot                        common.Hash
	nLogs                       int
	contrExists, contrSuicided  bool
}

func viewOf(sdb evmvm.CStateDB) transitionView {
	return transitionView{
		senderNonce: sdb.GetNonce(SenderAddr), contrNonce: sdb.GetNonce(ContractAddr),
		sender: sdb.GetBalance(SenderAddr), contr: sdb.GetBalance(ContractAddr), third: sdb.GetBalance(ThirdAddr), plain: sdb.GetBalance(PlainAddr),
		slot: sdb.GetState(ContractAddr, common.BytesToHash([]byte{1})), nLogs: len(sdb.GetTransactionLogs()),
		contrExists: sdb.Exist(ContractAddr), contrSuicided: sdb.HasSuicided(ContractAddr),
	}
}

// H_C02_5_TransitionDifferential: evermint's copy of the state transition (x/evm/keeper.ApplyMessage ->
// StateTransition.TransitionDb, gas pre-paid by the ante handler) against go-ethereum's own core.ApplyMessage
// (the fork's, unmodified), both driving the fork's real EVM over the real context-based StateDB with the same
// scripted contract behaviour, from two ledgers that differ exactly by the pre-payment gasLimit*effectivePrice on
// the sender. For every message (call of a contract / plain transfer / creation, legacy or dynamic fee, nonce
// right / too low / too high, symbolic gas limit, block gas pool, value, contract gas use, refund and outcome):
// same consensus error class, same used gas, VM error and return data, and afterwards the same nonces,
// balances (sender, contract, recipients), storage, logs and self-destruct marks. The coinbase tip is paid by
// go-ethereum's transition and by evermint's ante handler and is left out.
func H_C02_5_TransitionDifferential() {
	transitionDifferential([]int{DestContract, DestCreate}, []model.ActionKind{model.ActSStore, model.ActTransferOut}, false)
}

// H_C02_5b_TransitionDifferentialAll: all destinations, four action kinds, nonce too low / too high (thorough tier).
func H_C02_5b_TransitionDifferentialAll() {
	transitionDifferential([]int{DestContract, DestPlain, DestCreate}, []model.ActionKind{model.ActSStore, model.ActLog, model.ActTransferOut, model.ActSelfDestruct}, true)
}

func transitionDifferential(dests []int, kinds []model.ActionKind, badNonces bool) {
	model.ResetScripts()
	model.ResetTxs()
	nonce := uint64(5)
	w1 := NewWorld(nonce)
	t := NewTx("tx", dests...)
	t.Nonce = nonce
	if badNonces {
		switch verif.Choice("nonceCase", 3) {
		case 1:
			t.Nonce = nonce - 1
		case 2:
			t.Nonce = nonce + 1
		}
	}
	sc := model.NewScript("script", 1, kinds, []common.Address{ThirdAddr, PlainAddr})
	if t.Create {
		sc.Ret = []byte{0x60, 0x00, 0x60, 0x00, 0x55, 0x00}
	}
	model.Scripts[ContractAddr] = sc
	model.CreateScript = sc
	price := t.EffPrice(w1.BaseFee)
	gas := new(big.Int).SetUint64(t.GasLimit)
	prepay := new(big.Int).Mul(gas, price)
	w2 := &World{SenderBal: new(big.Int).Add(w1.SenderBal, prepay), ContrBal: w1.ContrBal, ContrBalO: w1.ContrBalO, ThirdBal: w1.ThirdBal,
		Rest: w1.Rest, BaseFee: w1.BaseFee}
	w2.Build(nonce)
	// go-ethereum's purchase precondition (evermint: checked by the ante handler): the balance covers gas*feeCap + value
	need := new(big.Int).Add(new(big.Int).Mul(gas, t.FeeCap()), t.Value)
	verif.Assume(w2.SenderBal.Cmp(need) >= 0)
	// dynamic-fee messages below the base fee are refused by both (and by the ante handler before)
	blockGas := verif.Uint64("blockGasPool")
	msg := t.Message(w1.BaseFee)

	sdb1 := w1.E.NewStateDB(w1.E.Ctx, Coinbase)
	ctx1 := sdb1.GetCurrentContext()
	evm1 := w1.E.EK.NewEVM(ctx1, msg, w1.E.EVMConfig(ctx1, Coinbase, w1.BaseFee), nil, sdb1)
	gp1 := core.GasPool(blockGas)
	var r1 *core.ExecutionResult
	var e1 error
	p1 := verif.Try(func() {
		r1, e1 = evmkeeper.ApplyMessage(evm1, msg, &gp1, func(st *evmkeeper.StateTransition) { st.SenderPaidTheFee = true })
	})

	sdb2 := w2.E.NewStateDB(w2.E.Ctx, Coinbase)
	ctx2 := sdb2.GetCurrentContext()
	evm2 := w2.E.EK.NewEVM(ctx2, msg, w2.E.EVMConfig(ctx2, Coinbase, w2.BaseFee), nil, sdb2)
	gp2 := core.GasPool(blockGas)
	var r2 *core.ExecutionResult
	var e2 error
	p2 := verif.Try(func() { r2, e2 = core.ApplyMessage(evm2, msg, &gp2) })

	verif.Assert("same-panic-outcome", p1 == p2)
	if p1 || p2 {
		return
	}
	verif.Assert("same-consensus-error-outcome", (e1 == nil) == (e2 == nil))
	if e1 != nil || e2 != nil {
		if e1 != nil && e2 != nil {
			verif.Assert("same-consensus-error", e1.Error() == e2.Error() || sameErrClass(e1, e2))
			verif.Reach("refused-by-both")
		}
		return
	}
	verif.Assert("same-used-gas", r1.UsedGas == r2.UsedGas)
	verif.Assert("same-vm-error", (r1.Err == nil) == (r2.Err == nil) && (r1.Err == nil || r1.Err.Error() == r2.Err.Error()))
	verif.Assert("same-return-data", string(r1.ReturnData) == string(r2.ReturnData))
	verif.Assert("same-gas-returned-to-pool", uint64(gp1) == uint64(gp2))
	v1, v2 := viewOf(sdb1), viewOf(sdb2)
	verif.Assert("same-nonces", v1.senderNonce == v2.senderNonce && v1.contrNonce == v2.contrNonce)
	verif.Assert("same-sender-balance", v1.sender.Cmp(v2.sender) == 0)
	verif.Assert("same-other-balances", verif.And(v1.contr.Cmp(v2.contr) == 0, v1.third.Cmp(v2.third) == 0, v1.plain.Cmp(v2.plain) == 0))
	verif.Assert("same-storage-logs-marks", v1.slot == v2.slot && v1.nLogs == v2.nLogs && v1.contrExists == v2.contrExists && v1.contrSuicided == v2.contrSuicided)
	verif.Assert("same-refund-counter", sdb1.GetRefund() == sdb2.GetRefund())
	if r1.Err == nil {
		verif.Reach("executed-by-both")
	} else {
		verif.Reach("vm-error-in-both")
	}
}

func sameErrClass(a, b error) bool {
	for _, c := range []error{core.ErrNonceTooLow, core.ErrNonceTooHigh, core.ErrGasLimitReached, core.ErrIntrinsicGas, core.ErrFeeCapTooLow, core.ErrTipAboveFeeCap,
		core.ErrInsufficientFundsForTransfer, core.ErrInsufficientFunds, core.ErrSenderNoEOA, corevm.ErrOutOfGas} {
		if errors.Is(a, c) != errors.Is(b, c) {
			return false
		}
	}
	return true
}

// H_C01_5_TracerSettingIndependence: the node-local `evm.tracer` setting (app.toml / --evm.tracer: "", "access_list",
// "struct") selects a go-ethereum logger that NewEVM attaches to every transaction execution; it is node-local
// configuration and must not change any consensus result. The same message (call of the scripted contract, plain
// transfer or creation) is executed with commit by a keeper built without tracer and by one built with the tracer
// setting: same panic / error outcome, same gas used, VM error and return data, same persistent stores.
func H_C01_5_TracerSettingIndependence() {
	model.ResetScripts()
	model.ResetTxs()
	nonce := uint64(5)
	env.Tracer = ""
	w1 := NewWorld(nonce)
	t := NewTx("tx")
	t.Nonce = nonce
	sc := model.NewScript("script", 1, []model.ActionKind{model.ActSStore, model.ActLog}, []common.Address{ThirdAddr, PlainAddr})
	if t.Create {
		sc.Ret = []byte{0x60, 0x00, 0x60, 0x00, 0x55, 0x00}
	}
	model.Scripts[ContractAddr] = sc
	model.CreateScript = sc
	env.Tracer = []string{"access_list", "struct"}[verif.Choice("nodeLocalTracerSetting", 2)]
	w2 := &World{SenderBal: w1.SenderBal, ContrBal: w1.ContrBal, ContrBalO: w1.ContrBalO, ThirdBal: w1.ThirdBal, Rest: w1.Rest, BaseFee: w1.BaseFee}
	w2.Build(nonce)
	env.Tracer = ""
	run := func(w *World) (*evmtypes.MsgEthereumTxResponse, error, bool) {
		e := w.E
		cfg := e.EVMConfig(e.Ctx, Coinbase, w.BaseFee)
		txType := t.Type()
		e.EK.IncreaseTxCountTransient(e.Ctx)
		var resp *evmtypes.MsgEthereumTxResponse
		var err error
		p := verif.Try(func() {
			resp, err = e.EK.ApplyMessageWithConfig(e.Ctx, t.Message(w.BaseFee), nil, true, cfg, evmvm.TxConfig{TxType: &txType})
		})
		return resp, err, p
	}
	r1, e1, p1 := run(w1)
	r2, e2, p2 := run(w2)
	verif.Assert("tracer-setting-does-not-make-the-execution-panic", p1 == p2)
	if p1 || p2 {
		return
	}
	verif.Assert("same-error-outcome", (e1 == nil) == (e2 == nil))
	if e1 != nil || e2 != nil {
		return
	}
	verif.Assert("same-result", r1.GasUsed == r2.GasUsed && r1.VmError == r2.VmError && string(r1.Ret) == string(r2.Ret))
	verif.Assert("same-persistent-stores", samePersistent(w1.E.MS, w2.E.MS))
	verif.Reach("compared")
}
