//go:build verif

package htx

import (
	"github.com/ethereum/go-ethereum/common"
	ethcrypto "github.com/ethereum/go-ethereum/crypto"
)

func createdAddress(nonce uint64) common.Address { return ethcrypto.CreateAddress(SenderAddr, nonce) }
