//go:build verif

package htx

import (
	"strconv"

	"github.com/ethereum/go-ethereum/common"
	ethcrypto "github.com/ethereum/go-ethereum/crypto"
)

func createdAddress(nonce uint64) common.Address { return ethcrypto.CreateAddress(SenderAddr, nonce) }

func itoa(i int) string    { return strconv.Itoa(i) }
func utoa(u uint64) string { return strconv.FormatUint(u, 10) }
