//go:build verif

package htx

import (
	"math/big"

	sdk "github.com/cosmos/cosmos-sdk/types"
	"github.com/ethereum/go-ethereum/common"
	ethtypes "github.com/ethereum/go-ethereum/core/types"

	evmtypes "github.com/EscanBE/evermint/v12/x/evm/types"
	"github.com/EscanBE/evermint/v12/zzverif/model"
	"github.com/EscanBE/evermint/v12/zzverif/verif"
)

// transaction classes of the C13 block harness (prices and balances are concrete; the gas a contract consumes
// and hence every gas-used figure is symbolic)
const (
	kCallLogs      = iota // call the scripted contract: success, 0..2 logs
	kCallRevert           // the contract reverts (after emitting a log that must disappear)
	kCallVmError          // the contract fails (consumes all gas)
	kCoreError            // gas limit below the intrinsic gas: passes the ante handler, fails in the state transition
	kCreateOK             // successful creation (constructor emits a log)
	kCreateFail           // failed creation
	kPlainTransfer        // value transfer to an account without code
	kCreateSelfDestruct   // successful creation whose constructor self-destructs (the account is gone after commit)
	nTxClasses
)

type blockTx struct {
	class   int
	t       *Tx
	script  *model.Script
	r       *Result
	nonce   uint64
	nLogs   int
	gasUsed uint64
}

var rich, _ = new(big.Int).SetString("1000000000000000000000000000000", 10)

func attr(ev sdk.Event, key string) (string, bool) {
	for _, a := range ev.Attributes {
		if a.Key == key {
			return a.Value, true
		}
	}
	return "", false
}

// blockHarness delivers n Ethereum transactions of symbolic classes in one block context through the real EVM
// lane and then runs the real x/evm EndBlock.
func blockHarness(n int, allowed ...[]int) {
	model.ResetScripts()
	model.ResetTxs()
	w := &World{SenderBal: rich, ContrBal: big.NewInt(5), ContrBalO: big.NewInt(6), ThirdBal: big.NewInt(7), Rest: []*big.Int{big.NewInt(0), big.NewInt(0)}, BaseFee: big.NewInt(3)}
	w.Build(0)
	e := w.E
	var txs []*blockTx
	cum := uint64(0)
	logsSoFar := 0
	admitted := 0
	for i := 0; i < n; i++ {
		pfx := "tx" + string(rune('0'+i))
		b := &blockTx{}
		if i < len(allowed) && allowed[i] != nil {
			b.class = allowed[i][verif.Choice(pfx+".class", len(allowed[i]))]
		} else {
			b.class = verif.Choice(pfx+".class", nTxClasses)
		}
		b.nonce = e.EK.GetNonce(e.Ctx, SenderAddr)
		t := &Tx{To: ContractAddr, Nonce: b.nonce, GasLimit: 200000, GasPrice: big.NewInt(10), Value: big.NewInt(0), Data: []byte{0x01, 0x00}}
		sc := &model.Script{GasUse: verif.Uint64(pfx + ".gasUse")}
		logAct := model.Action{Kind: model.ActLog, Slot: common.BytesToHash([]byte{byte(i + 1)}), Amt: big.NewInt(0)}
		switch b.class {
		case kCallLogs:
			nl := verif.Choice(pfx+".nLogs", 3)
			for k := 0; k < nl; k++ {
				sc.Actions = append(sc.Actions, logAct)
			}
			b.nLogs = nl
		case kCallRevert:
			sc.Actions = append(sc.Actions, logAct)
			sc.Outcome = model.OutRevert
		case kCallVmError:
			sc.Actions = append(sc.Actions, logAct)
			sc.Outcome = model.OutError
		case kCoreError:
			t.GasLimit = 21010 // >= 20999 (ValidateBasic) but below the intrinsic gas 21020
		case kCreateOK:
			t.Create = true
			sc.Actions = append(sc.Actions, logAct)
			b.nLogs = 1
		case kCreateFail:
			t.Create = true
			sc.Outcome = model.OutError
		case kPlainTransfer:
			t.To = PlainAddr
			t.Value = big.NewInt(1)
		case kCreateSelfDestruct:
			t.Create = true
			sc.Actions = append(sc.Actions, model.Action{Kind: model.ActSelfDestruct, To: ThirdAddr, Amt: big.NewInt(0)})
		}
		model.Scripts[ContractAddr] = sc
		model.CreateScript = sc
		b.t, b.script = t, sc
		evBefore := len(e.Ctx.EventManager().Events())
		b.r = w.DeliverLane(t)
		verif.Assert("admitted", !b.r.AnteRejected)
		if b.r.AnteRejected {
			return
		}
		admitted++
		committed := !(b.r.CoreErr || b.r.Panicked)
		verif.Assert("class-outcome-as-designed", committed == (b.class != kCoreError))
		if committed {
			b.gasUsed = b.r.Resp.GasUsed
		} else {
			b.gasUsed = t.GasLimit
			b.nLogs = 0
		}
		cum += b.gasUsed
		// ---- per-transaction bookkeeping in the transient store
		verif.Assert("tx-count-is-number-of-admitted-txs", e.EK.GetTxCountTransient(e.Ctx) == uint64(admitted))
		rcpts := e.EK.GetTxReceiptsTransient(e.Ctx)
		verif.Assert("one-receipt-per-admitted-tx", len(rcpts) == admitted)
		if len(rcpts) != admitted {
			return
		}
		rc := rcpts[i]
		wantStatus := uint64(0)
		if committed && !b.r.Resp.Failed() {
			wantStatus = 1
		}
		verif.Assert("receipt-status-1-iff-no-vm-error", rc.Status == wantStatus)
		verif.Assert("receipt-cumulative-gas-is-running-sum", rc.CumulativeGasUsed == cum)
		verif.Assert("receipt-holds-exactly-its-logs", len(rc.Logs) == b.nLogs)
		verif.Assert("receipt-bloom-covers-exactly-its-logs", rc.Bloom == ethtypes.CreateBloom(ethtypes.Receipts{&ethtypes.Receipt{Logs: rc.Logs}}))
		// ---- the tx_receipt event of a committed execution
		evs := e.Ctx.EventManager().Events()[evBefore:]
		var rev *sdk.Event
		for k := range evs {
			if evs[k].Type == evmtypes.EventTypeTxReceipt {
				rev = &evs[k]
			}
		}
		verif.Assert("tx-receipt-event-iff-committed", (rev != nil) == committed)
		if rev != nil {
			idx, _ := attr(*rev, evmtypes.AttributeKeyReceiptTxIndex)
			verif.Assert("event-tx-index-is-block-position", idx == itoa(i))
			li, hasLi := attr(*rev, evmtypes.AttributeKeyReceiptStartLogIndex)
			verif.Assert("event-log-index-present-iff-logs", hasLi == (b.nLogs > 0))
			if hasLi {
				verif.Assert("event-first-log-index-is-logs-before", li == itoa(logsSoFar))
			}
			ca, _ := attr(*rev, evmtypes.AttributeKeyReceiptContractAddress)
			if b.class == kCreateOK || b.class == kCreateSelfDestruct {
				verif.Assert("created-address-reported", ca == createdAddress(b.nonce).Hex())
			} else {
				verif.Assert("no-created-address-unless-creation-succeeded", ca == "")
			}
			gu, _ := attr(*rev, evmtypes.AttributeKeyReceiptGasUsed)
			verif.Assert("event-gas-used", gu == utoa(b.gasUsed))
		}
		logsSoFar += b.nLogs
		txs = append(txs, b)
	}
	// ---- end of block: bloom over all receipts, never panics
	endPanic := verif.Try(func() { e.EK.EndBlock(e.Ctx) })
	verif.Assert("end-block-never-panics", !endPanic)
	verif.ReachIf("second-tx-has-logs-after-logs", logsSoFar >= 2 && len(txs) >= 2 && txs[len(txs)-1].nLogs > 0)
}

// H_C13_1_Block2: two Ethereum transactions of every class combination.
func H_C13_1_Block2() { blockHarness(2) }

// thorough tier: three transactions.
func H_C13_1b_Block3() { blockHarness(3) }

// H_C13_1c_Sandwich (quick tier): three transactions, the first and the last emitting logs (call with 0-2 logs; the first
// also a creation), any of the 8 classes in between: the bookkeeping of a transaction must not depend on what the one
// before it left behind (a discarded or failed transaction in the middle).
func H_C13_1c_Sandwich() {
	blockHarness(3, []int{kCallLogs, kCreateOK}, nil, []int{kCallLogs})
}
