//go:build verif

// Package htx holds the transaction-level harnesses: the real x/evm keeper state transition
// (ApplyMessageWithConfig -> ApplyMessage -> TransitionDb -> the fork's real EVM.Call/Create) over the real
// context-based StateDB, with only the bytecode interpreter loop replaced by model.Script.
package htx

import (
	"math/big"

	sdkmath "cosmossdk.io/math"
	sdk "github.com/cosmos/cosmos-sdk/types"
	authtypes "github.com/cosmos/cosmos-sdk/x/auth/types"
	"github.com/ethereum/go-ethereum/common"
	"github.com/ethereum/go-ethereum/core"
	ethtypes "github.com/ethereum/go-ethereum/core/types"
	ethcrypto "github.com/ethereum/go-ethereum/crypto"

	evmtypes "github.com/EscanBE/evermint/v12/x/evm/types"
	evmvm "github.com/EscanBE/evermint/v12/x/evm/vm"
	"github.com/EscanBE/evermint/v12/zzverif/env"
	"github.com/EscanBE/evermint/v12/zzverif/model"
	"github.com/EscanBE/evermint/v12/zzverif/verif"
)

var (
	// fixed, distinct, non-precompile addresses
	SenderAddr   = common.HexToAddress("0x7E5F4552091A69125d5DfCb7b8C2659029395Bdf") // address of private key 0x..01 (native replay signs with it)
	ContractAddr = common.HexToAddress("0x2000000000000000000000000000000000000b02")
	ThirdAddr    = common.HexToAddress("0x3000000000000000000000000000000000000c03")
	PlainAddr    = common.HexToAddress("0x4000000000000000000000000000000000000d04")
	Coinbase     = common.HexToAddress("0x5000000000000000000000000000000000000e05")
	code         = []byte{0x60, 0x00, 0x60, 0x00, 0xf3}
)

var FeeCollector = authtypes.NewModuleAddress(authtypes.FeeCollectorName)
var EvmModule = authtypes.NewModuleAddress(evmtypes.ModuleName)

// SymbolicPrices: when false (quick tier) gas prices and the base fee are drawn from small concrete sets, so that
// every gas-times-price product is linear for the solver; gas limits, gas use, refunds, values and balances
// stay fully symbolic. The thorough-tier harnesses switch it on.
var SymbolicPrices = false

// Tx is a symbolic Ethereum transaction as the state transition sees it.
type Tx struct {
	Dynamic  bool
	Create   bool
	To       common.Address
	Nonce    uint64
	GasLimit uint64
	GasPrice *big.Int // legacy / access-list
	Tip, Cap *big.Int // dynamic fee
	Value    *big.Int
	Data     []byte
}

func amount(name string, bits uint) *big.Int { return env.Amount(name, bits) }

// NewTx draws a symbolic transaction. Destinations: the scripted contract, a plain account, or creation.
const (
	DestContract = iota
	DestPlain
	DestCreate
)

func NewTx(name string, dests ...int) *Tx {
	t := &Tx{}
	t.Dynamic = verif.Bool(name + ".dynamicFee")
	if len(dests) == 0 {
		dests = []int{DestContract, DestPlain, DestCreate}
	}
	switch dests[verif.Choice(name+".dest", len(dests))] {
	case DestContract:
		t.To = ContractAddr
	case DestPlain:
		t.To = PlainAddr
	case DestCreate:
		t.Create = true
	}
	t.GasLimit = verif.Uint64(name + ".gasLimit")
	t.Value = amount(name+".value", 128)
	if SymbolicPrices {
		if t.Dynamic {
			t.Tip, t.Cap = amount(name+".tip", 100), amount(name+".cap", 100)
			verif.Assume(t.Tip.Cmp(t.Cap) <= 0)
		} else {
			t.GasPrice = amount(name+".gasPrice", 100)
		}
	} else if t.Dynamic {
		// concrete (tip, cap) pairs: free, tip+base below the cap, cap-limited (the base fee set is {0,5,7}, see NewWorld)
		pairs := [][2]int64{{0, 0}, {2, 9}, {2, 6}, {0, 7}}
		pr := pairs[verif.Choice(name+".tipCap", len(pairs))]
		t.Tip, t.Cap = big.NewInt(pr[0]), big.NewInt(pr[1])
	} else {
		prices := []int64{0, 3, 10_000_000_000}
		t.GasPrice = big.NewInt(prices[verif.Choice(name+".gasPriceChoice", len(prices))])
	}
	t.Data = []byte{0x01, 0x00}
	return t
}

// EffPrice is the effective gas price as defined by EIP-1559 / the property: min(tip+base, cap) or the gas price.
func (t *Tx) EffPrice(baseFee *big.Int) *big.Int {
	if !t.Dynamic {
		return new(big.Int).Set(t.GasPrice)
	}
	p := new(big.Int).Add(t.Tip, baseFee)
	if p.Cmp(t.Cap) > 0 {
		return new(big.Int).Set(t.Cap)
	}
	return p
}

// Message builds the go-ethereum core.Message the way Transaction.AsMessage does.
func (t *Tx) Message(baseFee *big.Int) core.Message {
	var to *common.Address
	if !t.Create {
		a := t.To
		to = &a
	}
	price := t.EffPrice(baseFee)
	feeCap, tip := price, price
	if t.Dynamic {
		feeCap, tip = t.Cap, t.Tip
	} else {
		feeCap, tip = t.GasPrice, t.GasPrice
	}
	return ethtypes.NewMessage(SenderAddr, to, t.Nonce, t.Value, t.GasLimit, price, feeCap, tip, t.Data, nil, false)
}

func (t *Tx) Type() uint8 {
	if t.Dynamic {
		return ethtypes.DynamicFeeTxType
	}
	return ethtypes.LegacyTxType
}

// World is the ledger the transaction runs against.
type World struct {
	E         *env.Env
	SenderBal *big.Int
	ContrBal  *big.Int
	ContrBalO *big.Int
	ThirdBal  *big.Int
	Rest      []*big.Int
	BaseFee   *big.Int
}

// NewWorld installs: sender (EOA, symbolic nonce/balance), a contract account with code at ContractAddr holding
// both denominations, a third plain account, the fee collector module account.
func NewWorld(senderNonce uint64) *World {
	w := &World{}
	w.SenderBal = amount("sender.bal", 200)
	w.ContrBal = amount("contract.bal", 128)
	w.ContrBalO = amount("contract.balOther", 128)
	w.ThirdBal = amount("third.bal", 128)
	// all pre-existing holdings are positive (the zero / exactly-spent cases are explored by the StateDB-level
	// harnesses H_C04_2 / H_C15_1; here they would only multiply paths)
	verif.Assume(w.ContrBal.Sign() > 0 && w.ContrBalO.Sign() > 0 && w.ThirdBal.Sign() > 0)
	w.Rest = []*big.Int{amount("supplyRest.evm", 130), amount("supplyRest.other", 130)}
	if SymbolicPrices {
		w.BaseFee = amount("baseFee", 64)
	} else {
		fees := []int64{0, 5, 7}
		w.BaseFee = big.NewInt(fees[verif.Choice("baseFeeChoice", len(fees))])
	}
	w.Build(senderNonce)
	return w
}

// Build (re)creates the environment from the drawn values (used twice by self-composition harnesses).
func (w *World) Build(senderNonce uint64) {
	e := env.New("other")
	w.E = e
	mk := func(a common.Address, num, seq uint64) {
		e.AK.SetAccount(e.Ctx, &authtypes.BaseAccount{Address: sdk.AccAddress(a[:]).String(), AccountNumber: num, Sequence: seq})
	}
	mk(SenderAddr, 10, senderNonce)
	mk(ContractAddr, 11, 1)
	mk(ThirdAddr, 12, 0)
	e.AK.SetModuleAccount(e.Ctx, authtypes.NewEmptyModuleAccount(authtypes.FeeCollectorName))
	e.SetBalance(SenderAddr[:], env.EvmDenom, w.SenderBal)
	e.SetBalance(ContractAddr[:], env.EvmDenom, w.ContrBal)
	e.SetBalance(ContractAddr[:], "other", w.ContrBalO)
	e.SetBalance(ThirdAddr[:], env.EvmDenom, w.ThirdBal)
	h := ethcrypto.Keccak256Hash(code)
	e.EK.SetCode(e.Ctx, h.Bytes(), code)
	e.EK.SetCodeHash(e.Ctx, ContractAddr, h)
	sum := new(big.Int).Add(w.Rest[0], w.SenderBal)
	sum.Add(sum, w.ContrBal)
	sum.Add(sum, w.ThirdBal)
	e.SetSupply(env.EvmDenom, sum)
	e.SetSupply("other", new(big.Int).Add(w.Rest[1], w.ContrBalO))
	e.FM.Params.BaseFee = sdkmath.NewIntFromBigInt(w.BaseFee)
}

// Result of delivering one transaction through the modelled runTx.
type Result struct {
	AnteRejected bool
	CoreErr      bool // consensus-level error: message phase discarded
	Panicked     bool // message phase panicked: discarded
	Resp         *evmtypes.MsgEthereumTxResponse
	FeePaid      *big.Int
	GasMeterUsed uint64
}

// Deliver runs one Ethereum transaction the way BaseApp.runTx + the EVM lane do, reduced to the parts that move
// coins: (ante branch) the SDK fee deduction of gasLimit*effectivePrice from the sender to the fee collector and
// the "sender paid the fee" flag, written iff it succeeds; (message branch) the real ApplyMessageWithConfig
// with commit=true, written iff it returns no error and does not panic. txIndex numbers the transaction in the block.
func (w *World) Deliver(t *Tx) *Result {
	e := w.E
	r := &Result{}
	price := t.EffPrice(w.BaseFee)
	fee := new(big.Int).Mul(new(big.Int).SetUint64(t.GasLimit), price)
	r.FeePaid = fee
	// ---- ante branch
	anteCtx, writeAnte := e.Ctx.CacheContext()
	e.EK.SetFlagSenderNonceIncreasedByAnteHandle(anteCtx, false)
	e.EK.SetFlagSenderPaidTxFeeInAnteHandle(anteCtx, false)
	if fee.Sign() > 0 {
		coins := sdk.NewCoins(sdk.NewCoin(env.EvmDenom, sdkmath.NewIntFromBigInt(fee)))
		if err := e.BK.SendCoinsFromAccountToModule(anteCtx, SenderAddr[:], authtypes.FeeCollectorName, coins); err != nil {
			r.AnteRejected = true
			return r
		}
	}
	e.EK.SetFlagSenderPaidTxFeeInAnteHandle(anteCtx, true)
	e.EK.IncreaseTxCountTransient(anteCtx)
	e.EK.SetGasUsedForCurrentTxTransient(anteCtx, t.GasLimit)
	writeAnte()
	// ---- message branch
	msgCtx, writeMsg := e.Ctx.CacheContext()
	cfg := e.EVMConfig(msgCtx, Coinbase, w.BaseFee)
	txType := t.Type()
	txConfig := evmvm.TxConfig{TxIndex: uint(e.EK.GetTxCountTransient(msgCtx) - 1), TxType: &txType}
	var err error
	r.Panicked = verif.Try(func() {
		r.Resp, err = e.EK.ApplyMessageWithConfig(msgCtx, t.Message(w.BaseFee), nil, true, cfg, txConfig)
	})
	if r.Panicked {
		return r
	}
	if err != nil {
		r.CoreErr = true
		return r
	}
	writeMsg()
	return r
}

var _ = model.ResetScripts

// LastErr keeps the last ante / message error text (debugging aid; not part of any assertion).
var LastErr string
