//go:build verif

package htx

import (
	"math/big"

	sdkmath "cosmossdk.io/math"
	sdk "github.com/cosmos/cosmos-sdk/types"
	sdkauthante "github.com/cosmos/cosmos-sdk/x/auth/ante"
	"github.com/ethereum/go-ethereum/common"
	ethtypes "github.com/ethereum/go-ethereum/core/types"
	protov2 "google.golang.org/protobuf/proto"

	"github.com/EscanBE/evermint/v12/app/antedl/duallane"
	"github.com/EscanBE/evermint/v12/app/antedl/evmlane"
	evertypes "github.com/EscanBE/evermint/v12/types"
	evmtypes "github.com/EscanBE/evermint/v12/x/evm/types"
	"github.com/EscanBE/evermint/v12/zzverif/env"
	"github.com/EscanBE/evermint/v12/zzverif/model"
	"github.com/EscanBE/evermint/v12/zzverif/verif"
)

// HTx is the minimal sdk.Tx the EVM-lane decorators need (they only use these interfaces).
type HTx struct {
	Msgs []sdk.Msg
	Gas  uint64
	Fee  sdk.Coins
}

func (t *HTx) GetMsgs() []sdk.Msg                    { return t.Msgs }
func (t *HTx) GetMsgsV2() ([]protov2.Message, error) { return nil, nil }
func (t *HTx) GetGas() uint64                        { return t.Gas }
func (t *HTx) GetFee() sdk.Coins                     { return t.Fee }
func (t *HTx) FeePayer() []byte                      { return t.Msgs[0].(*evmtypes.MsgEthereumTx).GetFrom() }
func (t *HTx) FeeGranter() []byte                    { return nil }

// EthTx builds the go-ethereum transaction object of t (engine: symbolic fields, unsigned; the signature is
// modelled by the registered signer).
func (t *Tx) EthTx() *ethtypes.Transaction {
	var to *common.Address
	if !t.Create {
		a := t.To
		to = &a
	}
	if t.Dynamic {
		return ethtypes.NewTx(&ethtypes.DynamicFeeTx{ChainID: big.NewInt(90909), Nonce: t.Nonce, GasTipCap: t.Tip, GasFeeCap: t.Cap, Gas: t.GasLimit, To: to, Value: t.Value, Data: t.Data})
	}
	// EIP-155 protected for chain id 90909: V = 35 + 2*chainId (R, S are placeholders: recovery is modelled)
	return ethtypes.NewTx(&ethtypes.LegacyTx{Nonce: t.Nonce, GasPrice: t.GasPrice, Gas: t.GasLimit, To: to, Value: t.Value, Data: t.Data,
		V: big.NewInt(35 + 2*90909), R: big.NewInt(1), S: big.NewInt(1)})
}

var txCounter int

// MsgEthereumTx wraps t as the message a user would broadcast, signed by the sender.
func (t *Tx) MsgEthereumTx() *evmtypes.MsgEthereumTx {
	if !verif.Symbolic() {
		return nativeSignedMsg(t)
	}
	txCounter++
	handle := []byte{0xfd, 'T', 'X', byte(txCounter)}
	model.RegisterTx(handle, &model.TxInfo{Tx: t.EthTx(), Signer: SenderAddr, Hash: common.BytesToHash([]byte{0xaa, byte(txCounter)})})
	return &evmtypes.MsgEthereumTx{MarshalledTx: handle, From: sdk.AccAddress(SenderAddr[:]).String()}
}

// FeeCap is the declared price of the embedded transaction (what MsgEthereumTx.BuildTx puts into the Cosmos fee).
func (t *Tx) FeeCap() *big.Int {
	if t.Dynamic {
		return t.Cap
	}
	return t.GasPrice
}

// DeliverLane runs one Ethereum transaction through the real EVM-lane code that moves coins, nonces and
// per-block bookkeeping, under the BaseApp.runTx branching discipline:
//   ante branch (written iff every decorator succeeds): DLSetupContext's flag reset, the real DLDeductFeeDecorator
//   (cosmos-sdk DeductFeeDecorator + the real EthereumTxFeeChecker), the real DLIncrementSequenceDecorator, the real
//   ELSetupExecutionDecorator;
//   message branch (written iff no error and no panic): the real x/evm message server EthereumTx.
func (w *World) DeliverLane(t *Tx) *Result {
	e := w.E
	r := &Result{}
	msg := t.MsgEthereumTx()
	declared := new(big.Int).Mul(new(big.Int).SetUint64(t.GasLimit), t.FeeCap())
	tx := &HTx{Msgs: []sdk.Msg{msg}, Gas: t.GasLimit, Fee: sdk.Coins{sdk.NewCoin(env.EvmDenom, sdkmath.NewIntFromBigInt(declared))}}
	r.FeePaid = new(big.Int).Mul(new(big.Int).SetUint64(t.GasLimit), t.EffPrice(w.BaseFee))

	// ---- ante branch
	anteCtx, writeAnte := e.Ctx.CacheContext()
	anteCtx = anteCtx.WithGasMeter(evertypes.NewInfiniteGasMeterWithLimit(t.GasLimit))
	e.EK.SetFlagSenderNonceIncreasedByAnteHandle(anteCtx, false)
	e.EK.SetFlagSenderPaidTxFeeInAnteHandle(anteCtx, false)
	var outCtx sdk.Context
	terminal := func(ctx sdk.Context, _ sdk.Tx, _ bool) (sdk.Context, error) { outCtx = ctx; return ctx, nil }
	deduct := duallane.NewDualLaneDeductFeeDecorator(*e.EK, sdkauthante.NewDeductFeeDecorator(e.AK, e.BK, nil, duallane.DualLaneFeeChecker(e.EK, e.FM)))
	incr := duallane.NewDualLaneIncrementSequenceDecorator(e.AK, *e.EK, sdkauthante.IncrementSequenceDecorator{})
	setup := evmlane.NewEvmLaneSetupExecutionDecorator(*e.EK)
	chain := func(ctx sdk.Context, tx sdk.Tx, sim bool) (sdk.Context, error) {
		return deduct.AnteHandle(ctx, tx, sim, func(ctx sdk.Context, tx sdk.Tx, sim bool) (sdk.Context, error) {
			return incr.AnteHandle(ctx, tx, sim, func(ctx sdk.Context, tx sdk.Tx, sim bool) (sdk.Context, error) {
				return setup.AnteHandle(ctx, tx, sim, terminal)
			})
		})
	}
	var anteErr error
	antePanic := verif.Try(func() {
		// DLValidateBasicDecorator: stateless validation of the embedded transaction
		if anteErr = msg.ValidateBasic(); anteErr != nil {
			return
		}
		_, anteErr = chain(anteCtx, tx, false)
	})
	if antePanic || anteErr != nil {
		if anteErr != nil {
			LastErr = "ante: " + anteErr.Error()
		}
		r.AnteRejected = true
		return r
	}
	writeAnte()
	// ---- message branch (runs with the context the ante chain produced, on a fresh branch of the block state)
	msgCtx, writeMsg := e.Ctx.CacheContext()
	msgCtx = msgCtx.WithGasMeter(outCtx.GasMeter()).WithKVGasConfig(outCtx.KVGasConfig()).WithTransientKVGasConfig(outCtx.TransientKVGasConfig())
	var err error
	r.Panicked = verif.Try(func() { r.Resp, err = e.EK.EthereumTx(msgCtx, msg) })
	r.GasMeterUsed = msgCtx.GasMeter().GasConsumed()
	if r.Panicked {
		return r
	}
	if err != nil {
		LastErr = err.Error()
		r.CoreErr = true
		return r
	}
	writeMsg()
	return r
}
