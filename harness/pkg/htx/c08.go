//go:build verif

package htx

import (
	"encoding/json"
	"math/big"

	sdkmath "cosmossdk.io/math"
	sdk "github.com/cosmos/cosmos-sdk/types"
	"github.com/ethereum/go-ethereum/common"
	"github.com/ethereum/go-ethereum/common/hexutil"

	"github.com/EscanBE/evermint/v12/app/antedl/evmlane"
	evmtypes "github.com/EscanBE/evermint/v12/x/evm/types"
	evmvm "github.com/EscanBE/evermint/v12/x/evm/vm"
	"github.com/EscanBE/evermint/v12/zzverif/env"
	"github.com/EscanBE/evermint/v12/zzverif/model"
	"github.com/EscanBE/evermint/v12/zzverif/verif"
)


// samePersistent compares the persistent stores (auth, bank, evm, cpc, vauth) of two multistore contents.
func samePersistent(a, b *model.MS) bool {
	return verif.And(model.SameKV(a.KV(model.AuthKey), b.KV(model.AuthKey)), model.SameKV(a.KV(model.BankKey), b.KV(model.BankKey)),
		model.SameKV(a.KV(env.EvmKey), b.KV(env.EvmKey)), model.SameKV(a.KV(env.CpcKey), b.KV(env.CpcKey)), model.SameKV(a.KV(env.VAuthKey), b.KV(env.VAuthKey)))
}

func ethCallRequest(t *Tx, gasCap uint64) *evmtypes.EthCallRequest {
	from := SenderAddr
	gas := hexutil.Uint64(t.GasLimit)
	args := evmtypes.TransactionArgs{From: &from, Gas: &gas, Value: (*hexutil.Big)(t.Value)}
	if !t.Create {
		to := t.To
		args.To = &to
	}
	data := hexutil.Bytes(t.Data)
	args.Data = &data
	if t.Dynamic {
		args.MaxFeePerGas, args.MaxPriorityFeePerGas = (*hexutil.Big)(t.Cap), (*hexutil.Big)(t.Tip)
	} else {
		args.GasPrice = (*hexutil.Big)(t.GasPrice)
	}
	var bz []byte
	if verif.Symbolic() {
		bz = verif.EncodeAny(&args)
	} else {
		var err error
		if bz, err = json.Marshal(args); err != nil {
			panic(err)
		}
	}
	return &evmtypes.EthCallRequest{Args: bz, GasCap: gasCap}
}

// noCommitWorld draws the transaction, the contract behaviour (a creation deploys non-empty code) and the ledger.
func noCommitWorld(dests []int, kinds []model.ActionKind) (*World, *Tx) {
	model.ResetScripts()
	model.ResetTxs()
	nonce := uint64(5)
	w := NewWorld(nonce)
	t := NewTx("tx", dests...)
	t.Nonce = nonce
	sc := model.NewScript("script", 1, kinds, []common.Address{ThirdAddr, PlainAddr})
	if t.Create {
		sc.Ret = []byte{0x60, 0x00, 0x60, 0x00, 0x55, 0x00} // the deployed runtime code
	}
	model.Scripts[ContractAddr] = sc
	model.CreateScript = sc
	return w, t
}

var noCommitKinds = []model.ActionKind{model.ActSStore, model.ActTransferOut, model.ActSelfDestruct}

// H_C08_2a_EthCall: eth_call (the real Keeper.EthCall) leaves every persistent store of the context it was given
// untouched, whatever the executed contract does (storage writes, value transfers, self-destruct, creation with
// code deposit) and whatever the outcome.
func H_C08_2a_EthCall() {
	w, t := noCommitWorld([]int{DestContract, DestCreate}, noCommitKinds)
	e := w.E
	before := e.MS.Snapshot()
	events0 := len(e.Ctx.EventManager().Events())
	_, err := e.EK.EthCall(e.Ctx, ethCallRequest(t, 0))
	verif.Assert("eth-call-leaves-persistent-stores", samePersistent(before, e.MS))
	verif.Assert("no-events-leak", len(e.Ctx.EventManager().Events()) == events0)
	if err == nil {
		verif.Reach("eth-call-executed")
	}
}

// H_C08_2b_NoCommit: the state transition with commit=false leaves the persistent stores untouched.
func H_C08_2b_NoCommit() {
	w, t := noCommitWorld([]int{DestContract, DestCreate}, noCommitKinds)
	e := w.E
	cfg := e.EVMConfig(e.Ctx, Coinbase, w.BaseFee)
	txType := t.Type()
	e.EK.IncreaseTxCountTransient(e.Ctx)
	mid := e.MS.Snapshot()
	var err error
	panicked := verif.Try(func() {
		_, err = e.EK.ApplyMessageWithConfig(e.Ctx, t.Message(w.BaseFee), nil, false, cfg, evmvm.TxConfig{TxType: &txType})
	})
	verif.Assert("no-commit-leaves-persistent-stores", samePersistent(mid, e.MS))
	if !panicked && err == nil {
		verif.Reach("executed")
	}
}

// H_C08_2c_TrialExecution: the mempool trial execution (the real ELExecWithoutErrorDecorator) in check,
// re-check and simulate mode leaves EVERY store of its context untouched - including the sender sequence it
// rolls back and the flags it clears, which must land in its private branch - and is the identity in deliver mode.
func H_C08_2c_TrialExecution() {
	w, t := noCommitWorld([]int{DestContract}, []model.ActionKind{model.ActSStore, model.ActTransferOut})
	e := w.E
	msg := t.MsgEthereumTx()
	tx := &HTx{Msgs: []sdk.Msg{msg}, Gas: t.GasLimit, Fee: sdk.Coins{sdk.NewCoin(env.EvmDenom, sdkmath.NewIntFromBigInt(new(big.Int).Mul(new(big.Int).SetUint64(t.GasLimit), t.FeeCap())))}}
	mode := verif.Choice("mode", 4) // check, re-check, simulate, deliver
	ctx := e.Ctx
	switch mode {
	case 0:
		ctx = ctx.WithIsCheckTx(true)
	case 1:
		ctx = ctx.WithIsCheckTx(true).WithIsReCheckTx(true)
	}
	// what the earlier decorators did: the sender's sequence was increased and flagged
	if verif.Bool("nonceIncreasedByAnte") {
		acc := e.AK.GetAccount(ctx, SenderAddr[:])
		_ = acc.SetSequence(acc.GetSequence() + 1)
		e.AK.SetAccount(ctx, acc)
		e.EK.SetFlagSenderNonceIncreasedByAnteHandle(ctx, true)
	}
	mid := e.MS.Snapshot()
	d := evmlane.NewEvmLaneExecWithoutErrorDecorator(e.AK, e.BK, *e.EK)
	nextRan := false
	var err error
	panicked := verif.Try(func() {
		_, err = d.AnteHandle(ctx, tx, mode == 2, func(c sdk.Context, _ sdk.Tx, _ bool) (sdk.Context, error) { nextRan = true; return c, nil })
	})
	verif.Assert("trial-execution-leaves-every-store", model.SameContent(mid, e.MS))
	if mode == 3 {
		verif.Assert("deliver-mode-is-identity", !panicked && err == nil && nextRan)
		verif.Reach("trial-deliver")
	} else if nextRan {
		verif.Reach("trial-mempool-accepted")
	}
}

// H_C08_3_Prediction: the state transition with commit=false and with commit=true, from the same state and
// for the same message and contract behaviour, return the same data, logs, gas used and VM error.
func H_C08_3_Prediction() {
	model.ResetScripts()
	model.ResetTxs()
	nonce := uint64(5)
	w1 := NewWorld(nonce)
	t := NewTx("tx", DestContract)
	t.Nonce = nonce
	sc := model.NewScript("script", 1, []model.ActionKind{model.ActSStore, model.ActLog, model.ActTransferOut}, []common.Address{ThirdAddr, PlainAddr})
	model.Scripts[ContractAddr] = sc
	model.CreateScript = sc
	w2 := &World{SenderBal: w1.SenderBal, ContrBal: w1.ContrBal, ContrBalO: w1.ContrBalO, ThirdBal: w1.ThirdBal, Rest: w1.Rest, BaseFee: w1.BaseFee}
	w2.Build(nonce)
	run := func(w *World, commit bool) (*evmtypes.MsgEthereumTxResponse, error, bool) {
		e := w.E
		cfg := e.EVMConfig(e.Ctx, Coinbase, w.BaseFee)
		txType := t.Type()
		e.EK.IncreaseTxCountTransient(e.Ctx)
		var resp *evmtypes.MsgEthereumTxResponse
		var err error
		p := verif.Try(func() {
			resp, err = e.EK.ApplyMessageWithConfig(e.Ctx, t.Message(w.BaseFee), nil, commit, cfg, evmvm.TxConfig{TxType: &txType})
		})
		return resp, err, p
	}
	r1, e1, p1 := run(w1, false)
	r2, e2, p2 := run(w2, true)
	if p2 && !p1 {
		// committing may fail where simulating does not (a protected account would be destroyed at commit)
		verif.Reach("commit-only-failure")
		return
	}
	verif.Assert("same-panic-outcome", p1 == p2)
	verif.Assert("same-error-outcome", (e1 == nil) == (e2 == nil))
	if p1 || e1 != nil || e2 != nil {
		return
	}
	verif.Assert("same-gas-used", r1.GasUsed == r2.GasUsed)
	verif.Assert("same-vm-error", r1.VmError == r2.VmError)
	verif.Assert("same-return-data", string(r1.Ret) == string(r2.Ret))
	verif.Reach("predicted")
}

// H_C08_4_EstimateGas: the real Keeper.EstimateGas (binary search over the real state transition) against a contract
// whose success depends on the gas supplied (it needs minGas head-room on entry, consumes gasUse <= minGas and earns a
// refund): a returned estimate is a gas limit with which the same call, on the same state, does not fail; the
// estimation leaves the persistent stores untouched.
func H_C08_4_EstimateGas() { estimateGas(32, false) }

// H_C08_4b_EstimateGasWide: the same over a window of 100 gas units and a symbolic call value (thorough tier).
func H_C08_4b_EstimateGasWide() { estimateGas(100, true) }

func estimateGas(span uint64, symValue bool) {
	model.ResetScripts()
	model.ResetTxs()
	nonce := uint64(5)
	w := NewWorld(nonce)
	t := &Tx{To: ContractAddr, Nonce: nonce, GasPrice: big.NewInt(0)}
	t.Value = big.NewInt(0)
	if symValue {
		t.Value = amount("tx.value", 128)
	}
	t.GasLimit = 21000 + span
	sc := &model.Script{GasUse: verif.Uint64("script.gasUse"), MinGas: verif.Uint64("script.minGas"), Outcome: verif.Choice("script.outcome", model.NOutcomes)}
	refund := verif.Uint64("script.refund")
	verif.Assume(refund < 1<<62)
	sc.Actions = []model.Action{{Kind: model.ActSStore, Amt: big.NewInt(0), Slot: common.BytesToHash([]byte{1}), Val: common.Hash{}, Refund: refund}}
	verif.Assume(sc.MinGas <= 128 && sc.GasUse <= sc.MinGas)
	model.Scripts[ContractAddr] = sc
	e := w.E
	before := e.MS.Snapshot()
	var resp *evmtypes.EstimateGasResponse
	var err error
	panicked := verif.Try(func() { resp, err = e.EK.EstimateGas(e.Ctx, ethCallRequest(t, 25_000_000)) })
	verif.Assert("estimate-does-not-panic", !panicked)
	verif.Assert("estimate-leaves-persistent-stores", samePersistent(before, e.MS))
	if panicked || err != nil {
		verif.ReachIf("estimate-refused", sc.Outcome != model.OutSuccess || sc.MinGas > span)
		return
	}
	verif.Reach("estimated")
	verif.ReachIf("estimate-above-gas-used", sc.Outcome == model.OutSuccess && sc.MinGas > sc.GasUse)
	// deliver the same call with the estimate as gas limit, as eth_call on the same state
	t.GasLimit = resp.Gas
	res, err2 := e.EK.EthCall(e.Ctx, ethCallRequest(t, 25_000_000))
	verif.Assert("estimate-is-executable", err2 == nil && res != nil && res.VmError == "")
	if sc.Outcome == model.OutSuccess {
		verif.Assert("estimate-covers-head-room", resp.Gas >= 21000+sc.MinGas)
	}
}

// H_C08_3b_CallPredictsDelivery: eth_call (the real Keeper.EthCall on a query context: no ante handler ran, the
// "sender paid the fee" flag is not set) against the same call DELIVERED as the next transaction on the same
// state (fee deducted and flag set by the ante branch, then the real ApplyMessageWithConfig with commit): for a
// contract that reads neither block context nor the sender's balance, and a sender that can afford fee + value
// in both, the two report the same gas used (for the same gas limit), VM error, return data and number of logs -
// also when the execution earns a storage refund.
func H_C08_3b_CallPredictsDelivery() {
	model.ResetScripts()
	model.ResetTxs()
	nonce := uint64(5)
	w1 := NewWorld(nonce)
	t := NewTx("tx", DestContract)
	t.Nonce = nonce
	sc := model.NewScript("script", 1, []model.ActionKind{model.ActSStore, model.ActLog, model.ActTransferOut}, []common.Address{ThirdAddr, PlainAddr})
	model.Scripts[ContractAddr] = sc
	model.CreateScript = sc
	w2 := &World{SenderBal: w1.SenderBal, ContrBal: w1.ContrBal, ContrBalO: w1.ContrBalO, ThirdBal: w1.ThirdBal, Rest: w1.Rest, BaseFee: w1.BaseFee}
	w2.Build(nonce)
	// the sender can pay gasLimit x feeCap + value (otherwise admission / the transfer check legitimately differ)
	need := new(big.Int).Add(new(big.Int).Mul(new(big.Int).SetUint64(t.GasLimit), t.FeeCap()), t.Value)
	verif.Assume(w1.SenderBal.Cmp(need) >= 0)
	verif.Assume(t.GasLimit >= 21000 && t.GasLimit <= 25_000_000)
	// an admissible transaction: its fee cap covers the base fee (eth_call waives this for zero prices on purpose)
	verif.Assume(t.FeeCap().Cmp(w1.BaseFee) >= 0)
	var r1 *evmtypes.MsgEthereumTxResponse
	var e1 error
	p1 := verif.Try(func() { r1, e1 = w1.E.EK.EthCall(w1.E.Ctx, ethCallRequest(t, 25_000_000)) })
	r2 := w2.Deliver(t)
	verif.Assert("eth-call-does-not-panic", !p1)
	if p1 || r2.Panicked {
		return
	}
	if r2.AnteRejected {
		return
	}
	verif.Assert("call-fails-iff-delivery-is-refused", (e1 != nil) == r2.CoreErr)
	if e1 != nil || r2.CoreErr {
		verif.Reach("refused-by-both")
		return
	}
	verif.Assert("same-gas-used", r1.GasUsed == r2.Resp.GasUsed)
	verif.Assert("same-vm-error", r1.VmError == r2.Resp.VmError)
	verif.Assert("same-return-data", string(r1.Ret) == string(r2.Resp.Ret))
	verif.Reach("predicted")
	if sc.Outcome == model.OutSuccess && len(sc.Actions) == 1 && sc.Actions[0].Kind == model.ActSStore {
		verif.Reach("predicted-with-refund")
	}
}
