//go:build verif

package htx

import (
	"math/big"

	"github.com/ethereum/go-ethereum/common"
	ethtypes "github.com/ethereum/go-ethereum/core/types"

	"github.com/EscanBE/evermint/v12/zzverif/env"
	"github.com/EscanBE/evermint/v12/zzverif/model"
	"github.com/EscanBE/evermint/v12/zzverif/verif"
)

const (
	dataGas      = 16 + 4 // the transaction data is {0x01, 0x00}
	txGas        = 21000
	txGasCreate  = 53000
	refundQuotient = 5 // EIP-3529
)

// oneTx delivers one symbolic transaction through the EVM lane and returns everything the C05 / C06 assertions need.
type oneTxRun struct {
	w       *World
	t       *Tx
	sc      *model.Script
	r       *Result
	nonce0  uint64
	sender0 *big.Int
}

func runOneTx(dests []int, kinds []model.ActionKind) *oneTxRun { return runOneTxN(dests, kinds, true) }

func runOneTxN(dests []int, kinds []model.ActionKind, symbolicNonce bool) *oneTxRun {
	model.ResetScripts()
	model.ResetTxs()
	nonce := uint64(5)
	if symbolicNonce {
		nonce = verif.Uint64("sender.nonce")
	}
	verif.Assume(nonce < 1<<63)
	w := NewWorld(nonce)
	t := NewTx("tx", dests...)
	t.Nonce = nonce
	// the script never pays the sender, so the sender's balance change is fee and value only
	sc := model.NewScript("script", 1, kinds, []common.Address{ThirdAddr, PlainAddr})
	model.Scripts[ContractAddr] = sc
	model.CreateScript = sc
	o := &oneTxRun{w: w, t: t, sc: sc, nonce0: nonce}
	o.sender0 = new(big.Int).Set(w.E.Balance(w.E.Ctx, SenderAddr[:], env.EvmDenom))
	o.r = w.DeliverLane(t)
	return o
}

func (o *oneTxRun) intrinsic() uint64 {
	if o.t.Create {
		return txGasCreate + dataGas
	}
	return txGas + dataGas
}

// H_C05_1_ChargeLaw: the sender of an admitted transaction pays exactly gasUsed x effective price plus the
// value actually transferred; gasLimit x price when the execution is discarded; nothing when rejected at
// admission. Gas used lies between the intrinsic gas and the gas limit and equals an independent account of what
// the execution consumed minus the capped refund; the SDK gas meter (consensus result) shows the same gas used
// as the receipt.
func H_C05_1_ChargeLaw() {
	o := runOneTx([]int{DestContract, DestPlain}, []model.ActionKind{model.ActNone, model.ActSStore, model.ActLog})
	o.assertChargeLaw()
}

// thorough tier: creation transactions with the quick-tier actions, and calls whose contract moves value out or
// self-destructs (all destinations x all five actions in one harness did not finish in 25 minutes)
func H_C05_1b_ChargeLawAll() {
	// (sender nonce 5: a symbolic nonce makes the created address a symbolic hash that may alias every account)
	o := runOneTxN([]int{DestCreate}, []model.ActionKind{model.ActNone, model.ActSStore, model.ActLog}, false)
	o.assertChargeLaw()
}

func H_C05_1c_ChargeLawValueMoves() {
	o := runOneTx([]int{DestContract}, []model.ActionKind{model.ActTransferOut, model.ActSelfDestruct})
	o.assertChargeLaw()
}

func (o *oneTxRun) assertChargeLaw() {
	e, t, r := o.w.E, o.t, o.r
	price := t.EffPrice(o.w.BaseFee)
	s1 := e.Balance(e.Ctx, SenderAddr[:], env.EvmDenom)
	paid := new(big.Int).Sub(o.sender0, s1)
	if r.AnteRejected {
		verif.Assert("rejected-at-admission-costs-nothing", paid.Sign() == 0)
		verif.Assert("rejected-at-admission-keeps-nonce", e.EK.GetNonce(e.Ctx, SenderAddr) == o.nonce0)
		verif.Reach("rejected")
		return
	}
	limitFee := new(big.Int).Mul(new(big.Int).SetUint64(t.GasLimit), price)
	if r.CoreErr || r.Panicked {
		verif.Assert("discarded-execution-costs-gas-limit-times-price", paid.Cmp(limitFee) == 0)
		verif.Assert("discarded-execution-consumes-whole-gas-limit", r.GasMeterUsed == t.GasLimit)
		verif.Reach("discarded")
		return
	}
	verif.Reach("committed")
	gasUsed := r.Resp.GasUsed
	failed := r.Resp.Failed()
	want := new(big.Int).Mul(new(big.Int).SetUint64(gasUsed), price)
	if !failed {
		want.Add(want, t.Value)
	}
	verif.Assert("sender-pays-gas-used-times-price-plus-value", paid.Cmp(want) == 0)
	// known finding C05-F12: with a storage refund the receipt's gas used (which is net of the refund, as in
	// go-ethereum) can drop below the intrinsic gas; outside that region the clause is asserted as stated
	verif.AssertKF("gas-used-at-least-intrinsic", gasUsed >= o.intrinsic(), "C05-F12", o.sc.Ran > 0 && !failed && len(o.sc.Actions) > 0 && o.sc.Actions[0].Kind == model.ActSStore && o.sc.Actions[0].Refund > 0)
	verif.Assert("gas-used-at-most-limit", gasUsed <= t.GasLimit)
	verif.Assert("consensus-gas-used-equals-receipt-gas-used", r.GasMeterUsed == gasUsed)

	// independent account of the gas: intrinsic + what the frame consumed - min(refund counter, consumed/5)
	avail := t.GasLimit - o.intrinsic()
	ran := o.sc.Ran > 0
	var consumed, refundCounter uint64
	consumed = o.intrinsic()
	if ran {
		use := o.sc.GasUse
		if use > avail {
			use = avail
		}
		switch o.sc.Outcome {
		case model.OutError:
			consumed = t.GasLimit
		default:
			consumed = o.intrinsic() + use
		}
		if o.sc.Outcome == model.OutSuccess && !failed && len(o.sc.Actions) > 0 && o.sc.Actions[0].Kind == model.ActSStore {
			refundCounter = o.sc.Actions[0].Refund
		}
	}
	refund := consumed / refundQuotient
	if refundCounter < refund {
		refund = refundCounter
	}
	if !t.Create {
		verif.Assert("gas-used-is-consumed-minus-capped-refund", gasUsed == consumed-refund)
	}
	verif.ReachIf("refund-capped-at-one-fifth", verif.And(ran, refundCounter > consumed/refundQuotient))
	// the receipt of the only transaction of the block
	rcpts := e.EK.GetTxReceiptsTransient(e.Ctx)
	verif.Assert("one-receipt", len(rcpts) == 1)
	if len(rcpts) == 1 {
		verif.Assert("receipt-cumulative-gas-equals-gas-used", rcpts[0].CumulativeGasUsed == gasUsed)
		verif.Assert("receipt-status-success-iff-no-vm-error", (rcpts[0].Status == ethtypes.ReceiptStatusSuccessful) == !failed)
	}
}

// H_C06_2_ExactlyOneNonce: whatever the outcome of an admitted transaction (success, VM error, consensus
// error, panic), the sender's account sequence ends exactly one above its value before the transaction, the
// bookkeeping flags are cleared, and a transaction rejected at admission leaves the sequence alone.
func H_C06_2_ExactlyOneNonce() {
	o := runOneTx([]int{DestContract, DestCreate}, []model.ActionKind{model.ActNone, model.ActSStore})
	e, r := o.w.E, o.r
	n1 := e.EK.GetNonce(e.Ctx, SenderAddr)
	if r.AnteRejected {
		verif.Assert("rejected-keeps-nonce", n1 == o.nonce0)
		return
	}
	verif.Assert("nonce-advances-by-exactly-one", n1 == o.nonce0+1)
	if !(r.CoreErr || r.Panicked) {
		verif.Assert("nonce-flag-cleared-after-execution", !e.EK.IsSenderNonceIncreasedByAnteHandle(e.Ctx))
		verif.Reach("committed")
		if o.t.Create && !r.Resp.Failed() {
			verif.Reach("committed-create")
		}
		if r.Resp.Failed() {
			verif.Reach("committed-vm-error")
		}
	} else {
		verif.Reach("discarded")
	}
}
