//go:build verif

package htx

import (
	"math/big"

	"github.com/ethereum/go-ethereum/common"

	"github.com/EscanBE/evermint/v12/zzverif/env"
	"github.com/EscanBE/evermint/v12/zzverif/model"
	"github.com/EscanBE/evermint/v12/zzverif/verif"
)

var scriptKinds = []model.ActionKind{model.ActNone, model.ActLog, model.ActSStore, model.ActTransferOut, model.ActSelfDestruct}

// H_C04_1_TxConservation: one Ethereum transaction, any fee fields / gas limit / value / destination / contract
// behaviour / outcome: for every denomination the supply does not grow, it shrinks only by what a
// self-destructed account still held, the fee collector gains exactly what the sender paid in fees, the balance
// changes of all parties sum to minus the burns, and the EVM module account ends at zero.
func H_C04_1_TxConservation() {
	txConservation([]int{DestContract}, []model.ActionKind{model.ActNone, model.ActSStore, model.ActSelfDestruct})
}

// thorough tier: all destinations (contract, plain account, creation) and all script actions
func H_C04_1b_TxConservationAll() { txConservation(nil, scriptKinds) }

// thorough tier: fully symbolic prices and base fee (nonlinear gas x price terms)
func H_C04_1c_TxConservationSymbolicPrices() {
	SymbolicPrices = true
	defer func() { SymbolicPrices = false }()
	txConservation([]int{DestContract}, []model.ActionKind{model.ActNone, model.ActSStore})
}

func txConservation(dests []int, kinds []model.ActionKind) {
	model.ResetScripts()
	model.ResetTxs()
	nonce := uint64(5)
	w := NewWorld(nonce)
	e := w.E
	t := NewTx("tx", dests...)
	t.Nonce = nonce
	targets := []common.Address{ThirdAddr, SenderAddr, PlainAddr}
	sc := model.NewScript("script", 1, kinds, targets)
	model.Scripts[ContractAddr] = sc
	model.CreateScript = sc

	bal := func(a common.Address) *big.Int { return new(big.Int).Set(e.Balance(e.Ctx, a[:], env.EvmDenom)) }
	sup0, supO0 := new(big.Int).Set(e.Supply(e.Ctx, env.EvmDenom)), new(big.Int).Set(e.Supply(e.Ctx, "other"))
	fc0 := new(big.Int).Set(e.Balance(e.Ctx, FeeCollector, env.EvmDenom))
	s0 := bal(SenderAddr)

	r := w.DeliverLane(t)

	sup1, supO1 := e.Supply(e.Ctx, env.EvmDenom), e.Supply(e.Ctx, "other")
	fc1 := e.Balance(e.Ctx, FeeCollector, env.EvmDenom)
	s1 := bal(SenderAddr)
	verif.Assert("evm-module-account-zero", verif.And(e.Balance(e.Ctx, EvmModule, env.EvmDenom).Sign() == 0, e.Balance(e.Ctx, EvmModule, "other").Sign() == 0))
	if r.AnteRejected {
		verif.Assert("rejected-tx-changes-nothing", verif.And(sup1.Cmp(sup0) == 0, supO1.Cmp(supO0) == 0, fc1.Cmp(fc0) == 0, s1.Cmp(s0) == 0))
		return
	}
	verif.Assert("supply-never-grows", verif.And(sup1.Cmp(sup0) <= 0, supO1.Cmp(supO0) <= 0))
	if r.CoreErr || r.Panicked {
		// message phase discarded: only the fee moved
		verif.Assert("discarded-execution-keeps-supply", verif.And(sup1.Cmp(sup0) == 0, supO1.Cmp(supO0) == 0))
		verif.Assert("discarded-execution-fee-to-collector", new(big.Int).Sub(fc1, fc0).Cmp(r.FeePaid) == 0)
		verif.Reach("core-error-path")
		return
	}
	verif.Reach("committed-path")
	price := t.EffPrice(w.BaseFee)
	gasUsed := r.Resp.GasUsed
	feeForUsed := new(big.Int).Mul(new(big.Int).SetUint64(gasUsed), price)
	verif.ReachIf("refund-path", verif.And(gasUsed < t.GasLimit, price.Sign() > 0))
	// the EVM denomination is never destroyed by a transaction in this model (self-destruct pays the beneficiary first)
	selfBurn := sc.Ran > 0 && !r.Resp.Failed() && len(sc.Actions) > 0 && sc.Actions[0].Kind == model.ActSelfDestruct && sc.Actions[0].To == ContractAddr
	if !selfBurn {
		verif.Assert("evm-denom-supply-conserved", sup1.Cmp(sup0) == 0)
	}
	verif.Assert("fee-collector-gains-exactly-the-fee-paid", new(big.Int).Sub(fc1, fc0).Cmp(feeForUsed) == 0)
	// other denomination: only a self-destructed contract's holdings may disappear, and exactly those
	burnedO := new(big.Int).Sub(supO0, supO1)
	verif.Assert("other-denom-burn-only-by-selfdestruct", verif.Or(burnedO.Sign() == 0, burnedO.Cmp(w.ContrBalO) == 0))
	// sum of balance changes of all parties = - burns
	sumAfter := new(big.Int).Add(bal(SenderAddr), bal(ContractAddr))
	sumAfter.Add(sumAfter, bal(ThirdAddr))
	sumAfter.Add(sumAfter, bal(PlainAddr))
	sumAfter.Add(sumAfter, fc1)
	sumAfter.Add(sumAfter, bal(Coinbase))
	if t.Create && !r.Resp.Failed() {
		created := createdAddress(nonce)
		sumAfter.Add(sumAfter, bal(created))
	}
	sumBefore := new(big.Int).Add(w.SenderBal, w.ContrBal)
	sumBefore.Add(sumBefore, w.ThirdBal)
	sumBefore.Add(sumBefore, fc0)
	if !selfBurn {
		verif.Assert("balance-changes-sum-to-zero", sumAfter.Cmp(sumBefore) == 0)
	}
}
