//go:build verif

package htx

import (
	"math/big"

	sdk "github.com/cosmos/cosmos-sdk/types"

	"github.com/ethereum/go-ethereum/common"
	ethtypes "github.com/ethereum/go-ethereum/core/types"
	ethcrypto "github.com/ethereum/go-ethereum/crypto"

	evmtypes "github.com/EscanBE/evermint/v12/x/evm/types"
)

// the sender's key: SenderAddr is its address (checked below)
var senderKeyHex = "0000000000000000000000000000000000000000000000000000000000000001"

func nativeSignedMsg(t *Tx) *evmtypes.MsgEthereumTx {
	prv, err := ethcrypto.HexToECDSA(senderKeyHex)
	if err != nil {
		panic(err)
	}
	if ethcrypto.PubkeyToAddress(prv.PublicKey) != SenderAddr {
		panic("SenderAddr is not the address of the replay key")
	}
	signer := ethtypes.LatestSignerForChainID(big.NewInt(90909))
	var to *common.Address
	if !t.Create {
		a := t.To
		to = &a
	}
	var inner ethtypes.TxData
	if t.Dynamic {
		inner = &ethtypes.DynamicFeeTx{ChainID: big.NewInt(90909), Nonce: t.Nonce, GasTipCap: t.Tip, GasFeeCap: t.Cap, Gas: t.GasLimit, To: to, Value: t.Value, Data: t.Data}
	} else {
		inner = &ethtypes.LegacyTx{Nonce: t.Nonce, GasPrice: t.GasPrice, Gas: t.GasLimit, To: to, Value: t.Value, Data: t.Data}
	}
	tx, err := ethtypes.SignNewTx(prv, signer, inner)
	if err != nil {
		panic(err)
	}
	// like MsgEthereumTx.FromEthereumTx but without its validation (an invalid transaction must reach ValidateBasic)
	bz, err := tx.MarshalBinary()
	if err != nil {
		panic(err)
	}
	return &evmtypes.MsgEthereumTx{MarshalledTx: bz, From: sdk.AccAddress(SenderAddr.Bytes()).String()}
}
