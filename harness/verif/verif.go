//go:build verif

// Package verif is the harness API. Under the symbolic engine (gosym) every
// function here is intercepted; the bodies below are the native versions used
// when a counterexample is replayed against the natively compiled code: they
// read the values of the named inputs from the JSON file named by VERIF_CEX.
package verif

import (
	"encoding/json"
	"fmt"
	"math/big"
	"os"
	"strconv"
	"time"

	"github.com/cosmos/gogoproto/proto"
)

type cexFile struct {
	Harness string            `json:"harness"`
	Label   string            `json:"label"`
	Inputs  map[string]string `json:"inputs"`
	Order   []string          `json:"order"`
}

var (
	cex      *cexFile
	seen     = map[string]int{}
	lastMsg  string
	Failures []string
	Reached  = map[string]bool{}
)

func load() {
	if cex != nil {
		return
	}
	cex = &cexFile{Inputs: map[string]string{}}
	if p := os.Getenv("VERIF_CEX"); p != "" {
		b, err := os.ReadFile(p)
		if err != nil {
			panic(err)
		}
		if err := json.Unmarshal(b, cex); err != nil {
			panic(err)
		}
	}
}

// Reset clears the native replay state (between two replays in one process).
func Reset() { cex = nil; seen = map[string]int{}; Failures = nil; Reached = map[string]bool{} }

func raw(name string) string {
	load()
	if v, ok := cex.Inputs[name]; ok {
		return v
	}
	return "0"
}

func big0(name string) *big.Int {
	s := raw(name)
	if s == "true" {
		return big.NewInt(1)
	}
	if s == "false" {
		return big.NewInt(0)
	}
	v, ok := new(big.Int).SetString(s, 10)
	if !ok {
		panic("verif: cannot parse value of " + name + ": " + s)
	}
	return v
}

func Bool(name string) bool     { return raw(name) == "true" || raw(name) == "1" }
func Uint64(name string) uint64 { return big0(name).Uint64() }
func Int64(name string) int64   { return big0(name).Int64() }
func Uint8(name string) uint8   { return uint8(big0(name).Uint64()) }
func Uint32(name string) uint32 { return uint32(big0(name).Uint64()) }
func Int(name string) int       { return int(big0(name).Int64()) }
func Big(name string) *big.Int  { return big0(name) }

// Fill fills b with (symbolic) bytes named name[0], name[1], ...
func Fill(name string, b []byte) {
	for i := range b {
		b[i] = Uint8(name + "[" + strconv.Itoa(i) + "]")
	}
}

// Choice is a bounded non-deterministic choice in [0,n).
func Choice(name string, n int) int {
	v := int(big0(name).Int64())
	if v < 0 || v >= n {
		return 0
	}
	return v
}

type assumeFailed struct{}

func Assume(c bool) {
	if !c {
		panic(assumeFailed{})
	}
}

func Assert(label string, c bool) {
	if !c {
		Failures = append(Failures, label)
	}
}

// AssertKF is Assert with a known-finding region: inside region the failure is
// reported as the known finding kf (when it is listed as open), outside as a violation.
func AssertKF(label string, c bool, kf string, region bool) {
	if !c {
		if region {
			Failures = append(Failures, label+"@"+kf)
		} else {
			Failures = append(Failures, label)
		}
	}
}

// And / Or / Implies are non-forking boolean combinators (a Go && on symbolic operands forks the path under the engine).
func And(bs ...bool) bool {
	for _, b := range bs {
		if !b {
			return false
		}
	}
	return true
}

func Or(bs ...bool) bool {
	for _, b := range bs {
		if b {
			return true
		}
	}
	return false
}

func Implies(a, b bool) bool { return !a || b }

func Reach(label string) { Reached[label] = true }

// Switch turns a named group of engine-side function replacements on/off ("evmstub": (*vm.EVM).Call/Create/... are
// replaced by model.EVMCall/...). No effect natively.
func Switch(key string, on bool) {}

// ReachIf records label as reached when cond can hold on the current path (vacuity guard; never forks).
func ReachIf(label string, cond bool) {
	if cond {
		Reached[label] = true
	}
}

// Try runs f and reports whether it panicked.
func Try(f func()) (panicked bool) {
	defer func() {
		if r := recover(); r != nil {
			if _, ok := r.(assumeFailed); ok {
				panic(r)
			}
			lastMsg = fmt.Sprint(r)
			panicked = true
		}
	}()
	f()
	return false
}

func PanicMsg() string { return lastMsg }

// MapOrder switches non-deterministic map iteration order on/off (engine only).
func MapOrder(nondet bool) {}

// Schedule switches the engine to concurrency mode: goroutines, channels, select and sync primitives run under a
// deterministic scheduler whose decisions are explored like every other choice, with at most maxPreemptions
// preemptive context switches per path. Natively the Go scheduler decides.
func Schedule(maxPreemptions int) {}

// Quiesce blocks until no other goroutine can run (engine); natively it sleeps for 150 ms (three polling periods
// of the indexer service).
func Quiesce() { time.Sleep(150 * time.Millisecond) }

// Symbolic reports whether the harness runs under the symbolic engine.
func Symbolic() bool { return false }

func Note(k string, v any) {}

func IsConcrete(v any) bool { return true }

// RunNative runs a harness natively for replay; it returns the failed assertion labels.
func RunNative(h func()) (failures []string, assumeViolated bool, panicked any) {
	Reset()
	defer func() {
		if r := recover(); r != nil {
			if _, ok := r.(assumeFailed); ok {
				assumeViolated = true
				failures = Failures
				return
			}
			panicked = r
			failures = Failures
		}
	}()
	h()
	return Failures, false, nil
}

// ---- opaque encoding (inverse-pair codec stub) -----------------------------
// Under the engine Encode returns an opaque handle recording a deep copy of the
// message and Decode gives it back. Natively (replay) the real protobuf
// encoding is used, so the replay also exercises the real codec.

func Encode(x any) []byte {
	m, ok := x.(proto.Message)
	if !ok {
		panic("verif.Encode: not a proto.Message")
	}
	bz, err := proto.Marshal(m)
	if err != nil {
		panic(err)
	}
	return bz
}

func Decode(bz []byte, ptr any) bool {
	m, ok := ptr.(proto.Message)
	if !ok {
		return false
	}
	return proto.Unmarshal(bz, m) == nil
}

// DecodeInterface natively needs an interface registry; set by the harness when used.
var NativeDecodeInterface func(bz []byte, ptr any) bool

func DecodeInterface(bz []byte, ptr any) bool {
	if NativeDecodeInterface == nil {
		panic("verif.DecodeInterface: no native decoder registered")
	}
	return NativeDecodeInterface(bz, ptr)
}

// EncodeAny / DecodeAny: the opaque inverse-pair encoding for non-protobuf values (RLP-encoded receipts and
// transactions). Engine only: natively the real encoders run, so these are never called.
func EncodeAny(x any) []byte            { panic("verif.EncodeAny: engine only") }
func DecodeAny(bz []byte, ptr any) bool { panic("verif.DecodeAny: engine only") }

// SplitAmountDenom splits "<digits><denom>" (the rendering of one coin).
func SplitAmountDenom(s string) (*big.Int, string, bool) {
	k := 0
	for k < len(s) && s[k] >= '0' && s[k] <= '9' {
		k++
	}
	if k == 0 || k == len(s) {
		return new(big.Int), "", false
	}
	n, _ := new(big.Int).SetString(s[:k], 10)
	return n, s[k:], true
}
