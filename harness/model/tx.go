//go:build verif

package model

import (
	"github.com/ethereum/go-ethereum/common"
	ethtypes "github.com/ethereum/go-ethereum/core/types"

	evmtypes "github.com/EscanBE/evermint/v12/x/evm/types"
)

// Ethereum transaction model (engine side). RLP decoding, the transaction hash and signature recovery are
// outside the engine (reflection, Keccak over RLP, secp256k1). A harness registers a real ethtypes.Transaction
// object (built with ethtypes.NewTx from symbolic fields) under the opaque bytes it puts in
// MsgEthereumTx.MarshalledTx, together with the address its signature recovers to and its hash:
//   - MsgEthereumTx.AsTransaction()  -> the registered object            (RLP decoding is the inverse of encoding)
//   - ethtypes.Sender(signer, tx)    -> the registered signer address    (ECDSA recovery as an uninterpreted function)
//   - tx.Hash()                      -> the registered hash
// Natively (replay) none of these replacements exist: the harness builds a really signed transaction.

type TxInfo struct {
	Tx     *ethtypes.Transaction
	Signer common.Address
	Hash   common.Hash
	// SigErr makes signature recovery fail (invalid signature)
	SigErr bool
}

var (
	txByHandle map[string]*TxInfo
	txByPtr    map[*ethtypes.Transaction]*TxInfo
)

func ResetTxs() {
	txByHandle = map[string]*TxInfo{}
	txByPtr = map[*ethtypes.Transaction]*TxInfo{}
}

func RegisterTx(handle []byte, info *TxInfo) {
	txByHandle[string(handle)] = info
	txByPtr[info.Tx] = info
}

func MsgAsTransaction(msg evmtypes.MsgEthereumTx) *ethtypes.Transaction {
	info := txByHandle[string(msg.MarshalledTx)]
	if info == nil {
		panic("model: MsgEthereumTx.AsTransaction of unregistered bytes (undecodable transaction)")
	}
	return info.Tx
}

func TxSender(signer ethtypes.Signer, tx *ethtypes.Transaction) (common.Address, error) {
	info := txByPtr[tx]
	if info == nil {
		panic("model: ethtypes.Sender of an unregistered transaction")
	}
	if info.SigErr {
		return common.Address{}, ethtypes.ErrInvalidSig
	}
	return info.Signer, nil
}

func TxHash(tx *ethtypes.Transaction) common.Hash {
	info := txByPtr[tx]
	if info == nil {
		panic("model: Hash of an unregistered transaction")
	}
	return info.Hash
}

// TxUnmarshalBinary: RLP decoding of registered bytes yields a copy of the registered transaction; anything else
// is undecodable.
func TxUnmarshalBinary(tx *ethtypes.Transaction, b []byte) error {
	info := txByHandle[string(b)]
	if info == nil {
		return ethtypes.ErrTxTypeNotSupported
	}
	*tx = *info.Tx
	return nil
}

// Signature hashing and public-key recovery of go-ethereum's signers (engine side): Signer.Hash(tx) is the
// registered hash of tx, and recoverPlain(sighash, R, S, V) returns the signer registered for the transaction
// with that hash (ECDSA recovery as an uninterpreted function of the transaction), or ErrInvalidSig.
func SignerHash(_ interface{}, tx *ethtypes.Transaction) common.Hash { return TxHash(tx) }

func RecoverPlain(sighash common.Hash, R, S, Vb interface{}, homestead bool) (common.Address, error) {
	for _, info := range txByPtr {
		if info.Hash == sighash {
			if info.SigErr {
				return common.Address{}, ethtypes.ErrInvalidSig
			}
			return info.Signer, nil
		}
	}
	panic("model: recoverPlain of an unregistered signature hash")
}

// vauth ownership-proof signature check (Keccak + secp256k1 recovery) as an uninterpreted predicate: the harness
// registers which address the signature bytes are a valid signature for.
var (
	VauthSigValidFor common.Address
	VauthSigErr      bool
)

func VauthVerifySignature(address common.Address, signature []byte, message string) (bool, error) {
	if len(signature) == 0 {
		panic("signature cannot be empty")
	}
	if message == "" {
		panic("message cannot be empty")
	}
	if VauthSigErr {
		return false, ethtypes.ErrInvalidSig
	}
	return address == VauthSigValidFor, nil
}
