//go:build verif

package model

import (
	"errors"

	"github.com/ethereum/go-ethereum/common"
	ethtypes "github.com/ethereum/go-ethereum/core/types"
	"github.com/ethereum/go-ethereum/crypto"

	"github.com/EscanBE/evermint/v12/zzverif/verif"
)

// Engine-side replacements for the RLP encoding of receipts and for the bloom filter (DESIGN.md section 3).
// The encoding keeps exactly go-ethereum's consensus fields (receiptRLP / storedReceiptRLP: type, status,
// cumulative gas, bloom, per log address/topics/data); every other field decodes to its zero value.

type receiptConsensus struct {
	Type              uint8
	PostState         []byte
	Status            uint64
	CumulativeGasUsed uint64
	Bloom             ethtypes.Bloom
	Logs              []*ethtypes.Log
}

func ReceiptMarshalBinary(r *ethtypes.Receipt) ([]byte, error) {
	c := &receiptConsensus{Type: r.Type, PostState: r.PostState, Status: r.Status, CumulativeGasUsed: r.CumulativeGasUsed, Bloom: r.Bloom}
	for _, l := range r.Logs {
		c.Logs = append(c.Logs, &ethtypes.Log{Address: l.Address, Topics: append([]common.Hash(nil), l.Topics...), Data: append([]byte(nil), l.Data...)})
	}
	return verif.EncodeAny(c), nil
}

func ReceiptUnmarshalBinary(r *ethtypes.Receipt, b []byte) error {
	var c receiptConsensus
	if !verif.DecodeAny(b, &c) {
		return errors.New("model: undecodable receipt")
	}
	r.Type, r.PostState, r.Status, r.CumulativeGasUsed, r.Bloom = c.Type, c.PostState, c.Status, c.CumulativeGasUsed, c.Bloom
	r.Logs = nil
	for _, l := range c.Logs {
		r.Logs = append(r.Logs, &ethtypes.Log{Address: l.Address, Topics: append([]common.Hash(nil), l.Topics...), Data: append([]byte(nil), l.Data...)})
	}
	return nil
}

func bloomAdd(b *ethtypes.Bloom, d []byte) {
	h := crypto.Keccak256(d)
	for i := 0; i < 6; i += 2 {
		bit := (uint(h[i+1]) + (uint(h[i]) << 8)) & 2047
		idx := ethtypes.BloomByteLength - 1 - int(bit/8)
		b[idx] |= byte(1) << (bit % 8)
	}
}

func CreateBloom(receipts ethtypes.Receipts) ethtypes.Bloom {
	var bin ethtypes.Bloom
	for _, receipt := range receipts {
		for _, log := range receipt.Logs {
			bloomAdd(&bin, log.Address.Bytes())
			for _, t := range log.Topics {
				bloomAdd(&bin, t[:])
			}
		}
	}
	return bin
}

func LogsBloom(logs []*ethtypes.Log) []byte {
	var bin ethtypes.Bloom
	for _, log := range logs {
		bloomAdd(&bin, log.Address.Bytes())
		for _, t := range log.Topics {
			bloomAdd(&bin, t[:])
		}
	}
	return bin[:]
}
