//go:build verif

// Package model holds the environment models the harnesses run the real
// evermint code against (DESIGN.md §3): a finite multistore, an opaque codec,
// a no-op logger, and keeper models.
package model

import (
	"bytes"
	"io"

	storetypes "cosmossdk.io/store/types"
)

// ---- KV store: finite list of (key,value) pairs, closed world --------------

type kvEnt struct {
	k, v []byte
}

type KV struct {
	ents []kvEnt
	// wlog records the keys of the Set / Delete operations that reached this store, in order, including re-writes of
	// an unchanged value (in an IAVL store such a write still creates a new node version and changes the root hash)
	wlog [][]byte
}

// WriteLog returns the keys written (set or deleted) since ResetWriteLog, in order.
func (s *KV) WriteLog() [][]byte { return s.wlog }
func (s *KV) ResetWriteLog()     { s.wlog = nil }

func (s *KV) clone() *KV {
	c := &KV{ents: make([]kvEnt, len(s.ents))}
	copy(c.ents, s.ents)
	return c
}

func (s *KV) find(key []byte) int {
	for i := range s.ents {
		if bytes.Equal(s.ents[i].k, key) {
			return i
		}
	}
	return -1
}

func (s *KV) GetStoreType() storetypes.StoreType { return storetypes.StoreTypeDB }
func (s *KV) CacheWrap() storetypes.CacheWrap    { panic("model.KV: CacheWrap not modelled") }
func (s *KV) CacheWrapWithTrace(w io.Writer, tc storetypes.TraceContext) storetypes.CacheWrap {
	panic("model.KV: CacheWrapWithTrace not modelled")
}

func (s *KV) Get(key []byte) []byte {
	if key == nil {
		panic("nil key")
	}
	if i := s.find(key); i >= 0 {
		return s.ents[i].v
	}
	return nil
}

func (s *KV) Has(key []byte) bool {
	if key == nil {
		panic("nil key")
	}
	return s.find(key) >= 0
}

func (s *KV) Set(key, value []byte) {
	if len(key) == 0 {
		panic("key is nil or empty")
	}
	if value == nil {
		panic("value is nil")
	}
	k := append([]byte(nil), key...)
	v := append([]byte{}, value...)
	s.wlog = append(s.wlog, k)
	if i := s.find(key); i >= 0 {
		s.ents[i].v = v
		return
	}
	s.ents = append(s.ents, kvEnt{k, v})
}

func (s *KV) Delete(key []byte) {
	if key == nil {
		panic("nil key")
	}
	if i := s.find(key); i >= 0 {
		s.wlog = append(s.wlog, append([]byte{0xff, 'D'}, key...))
		s.ents = append(s.ents[:i:i], s.ents[i+1:]...)
	}
}

// Len returns the number of entries (harness observation).
func (s *KV) Len() int { return len(s.ents) }

// Entries returns the entries in ascending key order (harness observation).
func (s *KV) Entries() (keys, vals [][]byte) {
	it := s.Iterator(nil, nil)
	for ; it.Valid(); it.Next() {
		keys = append(keys, it.Key())
		vals = append(vals, it.Value())
	}
	return
}

func (s *KV) collect(start, end []byte, reverse bool) *kvIter {
	var sel []kvEnt
	for _, e := range s.ents {
		if start != nil && bytes.Compare(e.k, start) < 0 {
			continue
		}
		if end != nil && bytes.Compare(e.k, end) >= 0 {
			continue
		}
		sel = append(sel, e)
	}
	// insertion sort by key
	for a := 1; a < len(sel); a++ {
		for b := a; b > 0; b-- {
			c := bytes.Compare(sel[b].k, sel[b-1].k)
			if (!reverse && c < 0) || (reverse && c > 0) {
				sel[b], sel[b-1] = sel[b-1], sel[b]
			} else {
				break
			}
		}
	}
	return &kvIter{ents: sel, start: start, end: end}
}

func (s *KV) Iterator(start, end []byte) storetypes.Iterator        { return s.collect(start, end, false) }
func (s *KV) ReverseIterator(start, end []byte) storetypes.Iterator { return s.collect(start, end, true) }

type kvIter struct {
	ents       []kvEnt
	i          int
	start, end []byte
}

func (it *kvIter) Domain() ([]byte, []byte) { return it.start, it.end }
func (it *kvIter) Valid() bool              { return it.i < len(it.ents) }
func (it *kvIter) Next() {
	if !it.Valid() {
		panic("iterator is invalid")
	}
	it.i++
}
func (it *kvIter) Key() []byte {
	if !it.Valid() {
		panic("iterator is invalid")
	}
	return it.ents[it.i].k
}
func (it *kvIter) Value() []byte {
	if !it.Valid() {
		panic("iterator is invalid")
	}
	return it.ents[it.i].v
}
func (it *kvIter) Error() error { return nil }
func (it *kvIter) Close() error { return nil }

// ---- multistore -----------------------------------------------------------------

type MS struct {
	parent *MS
	keys   []storetypes.StoreKey
	stores []*KV
	// Writes counts Write() calls that reached this store from a child (observation)
	Writes int
}

func NewMS(keys ...storetypes.StoreKey) *MS {
	ms := &MS{}
	for _, k := range keys {
		ms.keys = append(ms.keys, k)
		ms.stores = append(ms.stores, &KV{})
	}
	return ms
}

func (ms *MS) idx(key storetypes.StoreKey) int {
	for i, k := range ms.keys {
		if k == key {
			return i
		}
	}
	panic("model.MS: unknown store key " + key.Name())
}

func (ms *MS) KV(key storetypes.StoreKey) *KV { return ms.stores[ms.idx(key)] }

// ResetWriteLogs / SameWriteLogs: the sequences of store writes of two multistores (see KV.wlog).
func (ms *MS) ResetWriteLogs() {
	for _, s := range ms.stores {
		s.ResetWriteLog()
	}
}

func SameWriteLogs(a, b *MS) bool {
	if len(a.stores) != len(b.stores) {
		return false
	}
	for i := range a.stores {
		x, y := a.stores[i].wlog, b.stores[i].wlog
		if len(x) != len(y) {
			return false
		}
		for k := range x {
			if !bytes.Equal(x[k], y[k]) {
				return false
			}
		}
	}
	return true
}

func (ms *MS) GetStoreType() storetypes.StoreType { return storetypes.StoreTypeMulti }
func (ms *MS) CacheWrap() storetypes.CacheWrap    { return ms.CacheMultiStore().(storetypes.CacheWrap) }
func (ms *MS) CacheWrapWithTrace(w io.Writer, tc storetypes.TraceContext) storetypes.CacheWrap {
	return ms.CacheWrap()
}

func (ms *MS) CacheMultiStore() storetypes.CacheMultiStore {
	c := &MS{parent: ms, keys: ms.keys}
	for _, s := range ms.stores {
		c.stores = append(c.stores, s.clone())
	}
	return c
}

func (ms *MS) CacheMultiStoreWithVersion(version int64) (storetypes.CacheMultiStore, error) {
	return ms.CacheMultiStore(), nil
}

func (ms *MS) GetStore(key storetypes.StoreKey) storetypes.Store     { return ms.KV(key) }
func (ms *MS) GetKVStore(key storetypes.StoreKey) storetypes.KVStore { return ms.KV(key) }
func (ms *MS) TracingEnabled() bool                                  { return false }
func (ms *MS) SetTracer(w io.Writer) storetypes.MultiStore           { return ms }
func (ms *MS) SetTracingContext(storetypes.TraceContext) storetypes.MultiStore {
	return ms
}
func (ms *MS) LatestVersion() int64 { return 0 }

// Write replaces the parent's stores by this branch's content.
func (ms *MS) Write() {
	if ms.parent == nil {
		panic("model.MS: Write on a root multistore")
	}
	for i, s := range ms.stores {
		ms.parent.stores[i] = s.clone()
	}
	ms.parent.Writes++
}

// Snapshot returns a deep copy of the current content (for before/after comparison).
func (ms *MS) Snapshot() *MS {
	c := &MS{keys: ms.keys}
	for _, s := range ms.stores {
		c.stores = append(c.stores, s.clone())
	}
	return c
}

// SameContent reports whether two multistores hold exactly the same key/value pairs.
func SameContent(a, b *MS) bool {
	if len(a.stores) != len(b.stores) {
		return false
	}
	for i := range a.stores {
		if !SameKV(a.stores[i], b.stores[i]) {
			return false
		}
	}
	return true
}

func SameKV(x, y *KV) bool {
	if len(x.ents) != len(y.ents) {
		return false
	}
	for _, e := range x.ents {
		j := y.find(e.k)
		if j < 0 {
			return false
		}
		if !bytes.Equal(e.v, y.ents[j].v) {
			return false
		}
	}
	return true
}
