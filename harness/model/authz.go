//go:build verif

package model

import (
	codectypes "github.com/cosmos/cosmos-sdk/codec/types"
	sdk "github.com/cosmos/cosmos-sdk/types"
	vestingtypes "github.com/cosmos/cosmos-sdk/x/auth/vesting/types"
	"github.com/cosmos/cosmos-sdk/x/authz"
	banktypes "github.com/cosmos/cosmos-sdk/x/bank/types"
	"github.com/cosmos/gogoproto/proto"

	evmtypes "github.com/EscanBE/evermint/v12/x/evm/types"
)

// protobuf Any packing (type registry + reflection) is outside the engine. Under the engine an authz.MsgExec
// carries one marker Any whose TypeUrl is a label; the inner messages are kept in a registry under that label
// (Any.GetCachedValue of a decoded transaction returns exactly the packed messages). Same for MsgGrant's
// authorization. Natively the harness packs real Anys and none of this is used.

var (
	execInner map[string][]sdk.Msg
	grantAuth map[string]authz.Authorization
	anyCount  int
)

func ResetAuthz() { execInner = map[string][]sdk.Msg{}; grantAuth = map[string]authz.Authorization{}; anyCount = 0 }

func NewExec(inner []sdk.Msg) *authz.MsgExec {
	anyCount++
	label := "exec#" + string(rune('a'+anyCount))
	execInner[label] = inner
	return &authz.MsgExec{Grantee: "grantee", Msgs: []*codectypes.Any{{TypeUrl: label}}}
}

func NewGrant(a authz.Authorization) *authz.MsgGrant {
	anyCount++
	label := "grant#" + string(rune('a'+anyCount))
	grantAuth[label] = a
	return &authz.MsgGrant{Granter: "granter", Grantee: "grantee", Grant: authz.Grant{Authorization: &codectypes.Any{TypeUrl: label}}}
}

func ExecGetMessages(msg authz.MsgExec) ([]sdk.Msg, error) {
	if len(msg.Msgs) == 0 {
		return []sdk.Msg{}, nil
	}
	inner, ok := execInner[msg.Msgs[0].TypeUrl]
	if !ok {
		return nil, errNotRegistered
	}
	return inner, nil
}

func GrantGetAuthorization(g authz.Grant) (authz.Authorization, error) {
	if g.Authorization == nil {
		return nil, errNotRegistered
	}
	a, ok := grantAuth[g.Authorization.TypeUrl]
	if !ok {
		return nil, errNotRegistered
	}
	return a, nil
}

type modelErr string

func (e modelErr) Error() string { return string(e) }

var errNotRegistered = modelErr("model: message cannot be unpacked")

// MsgTypeURL: sdk.MsgTypeURL = "/" + proto.MessageName(msg) (type registry). The names below are the registered
// names of the message types the harnesses use.
func MsgTypeURL(msg proto.Message) string {
	switch msg.(type) {
	case *evmtypes.MsgEthereumTx:
		return "/ethermint.evm.v1.MsgEthereumTx"
	case *vestingtypes.MsgCreateVestingAccount:
		return "/cosmos.vesting.v1beta1.MsgCreateVestingAccount"
	case *vestingtypes.MsgCreatePeriodicVestingAccount:
		return "/cosmos.vesting.v1beta1.MsgCreatePeriodicVestingAccount"
	case *vestingtypes.MsgCreatePermanentLockedAccount:
		return "/cosmos.vesting.v1beta1.MsgCreatePermanentLockedAccount"
	case *banktypes.MsgSend:
		return "/cosmos.bank.v1beta1.MsgSend"
	case *authz.MsgExec:
		return "/cosmos.authz.v1beta1.MsgExec"
	case *authz.MsgGrant:
		return "/cosmos.authz.v1beta1.MsgGrant"
	}
	panic("model.MsgTypeURL: unmodelled message type")
}

// Any.GetCachedValue of an extension option: registry by type-url label (see NewExec).
var anyCached map[string]interface{}

func RegisterAny(label string, v interface{}) *codectypes.Any {
	if anyCached == nil {
		anyCached = map[string]interface{}{}
	}
	anyCached[label] = v
	return &codectypes.Any{TypeUrl: label}
}

func AnyGetCachedValue(a *codectypes.Any) interface{} {
	if a == nil {
		return nil
	}
	return anyCached[a.TypeUrl]
}
