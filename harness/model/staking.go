//go:build verif

package model

import (
	"context"
	"errors"
	"math/big"

	addresscodec "cosmossdk.io/core/address"
	sdkmath "cosmossdk.io/math"
	sdk "github.com/cosmos/cosmos-sdk/types"
	disttypes "github.com/cosmos/cosmos-sdk/x/distribution/types"
	stakingtypes "github.com/cosmos/cosmos-sdk/x/staking/types"
	"github.com/ethereum/go-ethereum/common"

	cpcabi "github.com/EscanBE/evermint/v12/x/cpc/abi"
	"github.com/EscanBE/evermint/v12/zzverif/verif"
)

// Staking / distribution model (engine side). x/cpc holds the concrete stakingkeeper.Keeper and
// distkeeper.Keeper structs; the methods, message servers and queriers the staking precompile uses are replaced
// by the recording stubs below. The native staking / distribution message servers are the DEFINITION of "native
// effect" for property C11: what is checked is which native messages the precompile submits, on whose behalf,
// and that its logs mirror the module events.

const BondDenom = "stake"

type StakingRecord struct {
	Kind      string // delegate | undelegate | redelegate | withdraw
	Delegator string
	Validator string
	SrcVal    string
	Amount    *big.Int
	Denom     string
}

var (
	StakingLog []StakingRecord
	// PendingRewards: modifying an existing delegation makes the distribution hooks pay out pending rewards first
	PendingRewards *big.Int
	// StakingFails makes the native message servers reject
	StakingFails bool
)

func ResetStaking() {
	StakingLog = nil
	PendingRewards = nil
	StakingFails = false
	Rewards, RewardsQueriedFor = nil, nil
	QueryLog, Bonded = nil, nil
	Delegations, Validators, LastValidators = nil, nil, nil
}

type valCodec struct{}

func (valCodec) StringToBytes(text string) ([]byte, error) {
	a, err := sdk.ValAddressFromBech32(text)
	return a, err
}
func (valCodec) BytesToString(bz []byte) (string, error) { return sdk.ValAddress(bz).String(), nil }

func SKBondDenom(_ interface{}, _ context.Context) (string, error) { return BondDenom, nil }
func SKValidatorAddressCodec(_ interface{}) addresscodec.Codec     { return valCodec{} }

var errStaking = errors.New("native staking message rejected")

func hookPayout(ctx context.Context, delegator, validator string) {
	if PendingRewards == nil {
		return
	}
	sdk.UnwrapSDKContext(ctx).EventManager().EmitEvent(sdk.NewEvent(disttypes.EventTypeWithdrawRewards,
		sdk.NewAttribute(sdk.AttributeKeyAmount, sdk.NewCoin(BondDenom, sdkmath.NewIntFromBigInt(PendingRewards)).String()),
		sdk.NewAttribute(disttypes.AttributeKeyValidator, validator),
		sdk.NewAttribute(disttypes.AttributeKeyDelegator, delegator)))
}

func SKDelegate(_ interface{}, ctx context.Context, msg *stakingtypes.MsgDelegate) (*stakingtypes.MsgDelegateResponse, error) {
	if StakingFails {
		return nil, errStaking
	}
	StakingLog = append(StakingLog, StakingRecord{"delegate", msg.DelegatorAddress, msg.ValidatorAddress, "", msg.Amount.Amount.BigInt(), msg.Amount.Denom})
	hookPayout(ctx, msg.DelegatorAddress, msg.ValidatorAddress)
	sdk.UnwrapSDKContext(ctx).EventManager().EmitEvent(sdk.NewEvent(stakingtypes.EventTypeDelegate,
		sdk.NewAttribute(stakingtypes.AttributeKeyValidator, msg.ValidatorAddress),
		sdk.NewAttribute(stakingtypes.AttributeKeyDelegator, msg.DelegatorAddress),
		sdk.NewAttribute(sdk.AttributeKeyAmount, msg.Amount.String()),
		sdk.NewAttribute(stakingtypes.AttributeKeyNewShares, "1")))
	return &stakingtypes.MsgDelegateResponse{}, nil
}

func SKUndelegate(_ interface{}, ctx context.Context, msg *stakingtypes.MsgUndelegate) (*stakingtypes.MsgUndelegateResponse, error) {
	if StakingFails {
		return nil, errStaking
	}
	StakingLog = append(StakingLog, StakingRecord{"undelegate", msg.DelegatorAddress, msg.ValidatorAddress, "", msg.Amount.Amount.BigInt(), msg.Amount.Denom})
	hookPayout(ctx, msg.DelegatorAddress, msg.ValidatorAddress)
	sdk.UnwrapSDKContext(ctx).EventManager().EmitEvent(sdk.NewEvent(stakingtypes.EventTypeUnbond,
		sdk.NewAttribute(stakingtypes.AttributeKeyValidator, msg.ValidatorAddress),
		sdk.NewAttribute(stakingtypes.AttributeKeyDelegator, msg.DelegatorAddress),
		sdk.NewAttribute(sdk.AttributeKeyAmount, msg.Amount.String()),
		sdk.NewAttribute(stakingtypes.AttributeKeyCompletionTime, "later")))
	return &stakingtypes.MsgUndelegateResponse{}, nil
}

func SKBeginRedelegate(_ interface{}, ctx context.Context, msg *stakingtypes.MsgBeginRedelegate) (*stakingtypes.MsgBeginRedelegateResponse, error) {
	if StakingFails {
		return nil, errStaking
	}
	StakingLog = append(StakingLog, StakingRecord{"redelegate", msg.DelegatorAddress, msg.ValidatorDstAddress, msg.ValidatorSrcAddress, msg.Amount.Amount.BigInt(), msg.Amount.Denom})
	hookPayout(ctx, msg.DelegatorAddress, msg.ValidatorSrcAddress)
	sdk.UnwrapSDKContext(ctx).EventManager().EmitEvent(sdk.NewEvent(stakingtypes.EventTypeRedelegate,
		sdk.NewAttribute(stakingtypes.AttributeKeySrcValidator, msg.ValidatorSrcAddress),
		sdk.NewAttribute(stakingtypes.AttributeKeyDstValidator, msg.ValidatorDstAddress),
		sdk.NewAttribute(sdk.AttributeKeyAmount, msg.Amount.String()),
		sdk.NewAttribute(stakingtypes.AttributeKeyCompletionTime, "later")))
	return &stakingtypes.MsgBeginRedelegateResponse{}, nil
}

func DKWithdrawDelegatorReward(_ interface{}, ctx context.Context, msg *disttypes.MsgWithdrawDelegatorReward) (*disttypes.MsgWithdrawDelegatorRewardResponse, error) {
	if StakingFails {
		return nil, errStaking
	}
	amt := PendingRewards
	if r := rewardOf(msg.ValidatorAddress); r != nil {
		amt = r
	}
	if amt == nil {
		amt = big.NewInt(0)
	}
	StakingLog = append(StakingLog, StakingRecord{"withdraw", msg.DelegatorAddress, msg.ValidatorAddress, "", amt, BondDenom})
	sdk.UnwrapSDKContext(ctx).EventManager().EmitEvent(sdk.NewEvent(disttypes.EventTypeWithdrawRewards,
		sdk.NewAttribute(sdk.AttributeKeyAmount, sdk.NewCoin(BondDenom, sdkmath.NewIntFromBigInt(amt)).String()),
		sdk.NewAttribute(disttypes.AttributeKeyValidator, msg.ValidatorAddress),
		sdk.NewAttribute(disttypes.AttributeKeyDelegator, msg.DelegatorAddress)))
	return &disttypes.MsgWithdrawDelegatorRewardResponse{}, nil
}

// ParseCoinsNormalized: inverse of Coin.String for a single coin (what the module events carry).
func ParseCoinsNormalized(s string) (sdk.Coins, error) {
	if s == "" {
		return sdk.Coins{}, nil
	}
	amt, denom, ok := verif.SplitAmountDenom(s)
	if !ok {
		return nil, errors.New("invalid coin expression")
	}
	if amt.Sign() == 0 {
		return sdk.Coins{}, nil
	}
	return sdk.Coins{sdk.NewCoin(denom, sdkmath.NewIntFromBigInt(amt))}, nil
}

// JsonMarshal: the inverse-pair JSON model for the typed messages decoded from ABI tuples.
func JsonMarshal(v interface{}) ([]byte, error) {
	switch m := v.(type) {
	case cpcabi.StakingMessage:
		c := m
		return verif.EncodeAny(&c), nil
	case cpcabi.WithdrawRewardMessage:
		c := m
		return verif.EncodeAny(&c), nil
	}
	return nil, errors.New("model.JsonMarshal: unmodelled type")
}

// EIP-712 signature check of the signed-message variants: typed-data hashing (reflection) and secp256k1 recovery
// are uninterpreted; the harness registers the address the (message, r, s, v, chain id) tuple recovers to.
var (
	Eip712Recovered common.Address
	Eip712Err       bool
	Eip712ChainID   *big.Int
)

func Eip712VerifySignature(expected common.Address, tm interface{}, r, s [32]byte, v uint8, chainId *big.Int) (bool, common.Address, error) {
	Eip712ChainID = chainId
	if Eip712Err {
		return false, common.Address{}, errors.New("invalid signature")
	}
	return Eip712Recovered == expected, Eip712Recovered, nil
}

// ---- queries used by transfer() ------------------------------------------------------------------------------

var (
	// Delegations of the caller as the staking keeper returns them (the harness fixes the order)
	Delegations []stakingtypes.Delegation
	// Validators by operator address; LastValidators in the order IterateLastValidators visits them
	Validators     map[string]stakingtypes.Validator
	LastValidators []string
)

func SKGetAllDelegatorDelegations(_ interface{}, _ context.Context, del sdk.AccAddress) ([]stakingtypes.Delegation, error) {
	QueryLog = append(QueryLog, "delegations|"+del.String()+"|")
	var out []stakingtypes.Delegation
	for _, d := range Delegations {
		if d.DelegatorAddress == del.String() {
			out = append(out, d)
		}
	}
	return out, nil
}

func SKValidator(_ interface{}, _ context.Context, addr sdk.ValAddress) (stakingtypes.ValidatorI, error) {
	v, ok := Validators[addr.String()]
	if !ok {
		return nil, stakingtypes.ErrNoValidatorFound
	}
	return v, nil
}

func SKIterateLastValidators(_ interface{}, _ context.Context, fn func(index int64, validator stakingtypes.ValidatorI) (stop bool)) error {
	for i, op := range LastValidators {
		if fn(int64(i), Validators[op]) {
			break
		}
	}
	return nil
}

// RewardEntry: outstanding rewards of the querying delegator at one validator (integer part in the bond
// denomination, a fractional part in 10^-18 units, and an amount in some other denomination).
type RewardEntry struct {
	Validator string
	Amount    *big.Int
	Frac      *big.Int
	Other     *big.Int
}

// Rewards is what the distribution querier reports (in this order); RewardsQueriedFor records the delegator asked for.
var (
	Rewards           []RewardEntry
	RewardsQueriedFor []string
)

func rewardOf(validator string) *big.Int {
	for _, r := range Rewards {
		if r.Validator == validator {
			return r.Amount
		}
	}
	return nil
}

func DKDelegationTotalRewards(_ interface{}, _ context.Context, req *disttypes.QueryDelegationTotalRewardsRequest) (*disttypes.QueryDelegationTotalRewardsResponse, error) {
	RewardsQueriedFor = append(RewardsQueriedFor, req.DelegatorAddress)
	resp := &disttypes.QueryDelegationTotalRewardsResponse{}
	scale := new(big.Int).Exp(big.NewInt(10), big.NewInt(18), nil)
	total := sdk.DecCoins{}
	for _, r := range Rewards {
		raw := new(big.Int).Add(new(big.Int).Mul(r.Amount, scale), r.Frac)
		dc := sdk.DecCoins{}
		if raw.Sign() > 0 {
			dc = dc.Add(sdk.NewDecCoinFromDec(BondDenom, sdkmath.LegacyNewDecFromBigIntWithPrec(raw, 18)))
		}
		if r.Other != nil && r.Other.Sign() > 0 {
			dc = dc.Add(sdk.NewDecCoinFromDec("zother", sdkmath.LegacyNewDecFromBigInt(r.Other)))
		}
		resp.Rewards = append(resp.Rewards, disttypes.DelegationDelegatorReward{ValidatorAddress: r.Validator, Reward: dc})
		total = total.Add(dc...)
	}
	resp.Total = total
	return resp, nil
}

// ---- native queries behind the view methods -----------------------------------------------------------------

// QueryLog records, per native query, whom it was asked for ("kind|delegator|validator").
var QueryLog []string

// Bonded is what GetDelegatorBonded reports.
var Bonded *big.Int

func SKGetDelegation(_ interface{}, _ context.Context, del sdk.AccAddress, val sdk.ValAddress) (stakingtypes.Delegation, error) {
	QueryLog = append(QueryLog, "delegation|"+del.String()+"|"+val.String())
	for _, d := range Delegations {
		if d.DelegatorAddress == del.String() && d.ValidatorAddress == val.String() {
			return d, nil
		}
	}
	return stakingtypes.Delegation{}, stakingtypes.ErrNoDelegation
}

func SKGetDelegatorBonded(_ interface{}, _ context.Context, del sdk.AccAddress) (sdkmath.Int, error) {
	QueryLog = append(QueryLog, "bonded|"+del.String()+"|")
	if Bonded == nil {
		return sdkmath.ZeroInt(), nil
	}
	return sdkmath.NewIntFromBigInt(Bonded), nil
}

func DKDelegationRewards(_ interface{}, _ context.Context, req *disttypes.QueryDelegationRewardsRequest) (*disttypes.QueryDelegationRewardsResponse, error) {
	QueryLog = append(QueryLog, "rewards|"+req.DelegatorAddress+"|"+req.ValidatorAddress)
	scale := new(big.Int).Exp(big.NewInt(10), big.NewInt(18), nil)
	for _, r := range Rewards {
		if r.Validator == req.ValidatorAddress {
			raw := new(big.Int).Add(new(big.Int).Mul(r.Amount, scale), r.Frac)
			dc := sdk.DecCoins{}
			if raw.Sign() > 0 {
				dc = dc.Add(sdk.NewDecCoinFromDec(BondDenom, sdkmath.LegacyNewDecFromBigIntWithPrec(raw, 18)))
			}
			if r.Other != nil && r.Other.Sign() > 0 {
				dc = dc.Add(sdk.NewDecCoinFromDec("zother", sdkmath.LegacyNewDecFromBigInt(r.Other)))
			}
			return &disttypes.QueryDelegationRewardsResponse{Rewards: dc}, nil
		}
	}
	return nil, stakingtypes.ErrNoDelegation
}
