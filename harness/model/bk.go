//go:build verif

package model

import (
	"context"

	errorsmod "cosmossdk.io/errors"
	sdkmath "cosmossdk.io/math"
	storetypes "cosmossdk.io/store/types"
	sdk "github.com/cosmos/cosmos-sdk/types"
	sdkerrors "github.com/cosmos/cosmos-sdk/types/errors"
	authkeeper "github.com/cosmos/cosmos-sdk/x/auth/keeper"
	authtypes "github.com/cosmos/cosmos-sdk/x/auth/types"
	vestexported "github.com/cosmos/cosmos-sdk/x/auth/vesting/exported"
	bankkeeper "github.com/cosmos/cosmos-sdk/x/bank/keeper"
	banktypes "github.com/cosmos/cosmos-sdk/x/bank/types"

	"github.com/EscanBE/evermint/v12/zzverif/verif"
)

// BK models x/bank (cosmos-sdk v0.50.10 x/bank/keeper/{keeper,send,view}.go):
// balances (addr,denom)->amount and supply denom->amount live in the model
// multistore under BankKey (so they branch/revert with the context); mutators
// mirror the SDK's control flow: subUnlockedCoins with the account's own
// LockedCoins(blockTime), addCoins, account auto-creation, module permissions,
// and the SDK's events. Methods not listed are not modelled (calling one is a
// nil-interface panic, i.e. reported, never silently passed).
type BK struct {
	bankkeeper.Keeper // nil: unmodelled methods
	AK                authkeeper.AccountKeeper
	// Denoms is the closed set of denominations present in the model state.
	Denoms []string
	// Blocked lists addresses not allowed to receive funds through SendCoinsFromModuleToAccount.
	Blocked [][]byte
}

var BankKey = storetypes.NewKVStoreKey("bank")

func bkStore(ctx context.Context) storetypes.KVStore {
	return sdk.UnwrapSDKContext(ctx).MultiStore().GetKVStore(BankKey)
}

func balKey(addr []byte, denom string) []byte {
	k := make([]byte, 0, len(addr)+len(denom)+2)
	k = append(k, 0x02, byte(len(addr)))
	k = append(k, addr...)
	return append(k, denom...)
}

func supKey(denom string) []byte { return append([]byte{0x00}, denom...) }

func getAmt(ctx context.Context, key []byte) sdkmath.Int {
	bz := bkStore(ctx).Get(key)
	if bz == nil {
		return sdkmath.ZeroInt()
	}
	var c sdk.Coin
	if !verif.Decode(bz, &c) {
		panic("model.BK: undecodable amount")
	}
	return c.Amount
}

func setAmt(ctx context.Context, key []byte, denom string, amt sdkmath.Int) {
	if amt.IsZero() {
		bkStore(ctx).Delete(key)
		return
	}
	bkStore(ctx).Set(key, verif.Encode(&sdk.Coin{Denom: denom, Amount: amt}))
}

// SetBalanceRaw / SetSupplyRaw: harness set-up of an arbitrary ledger state.
func (k *BK) SetBalanceRaw(ctx context.Context, addr []byte, denom string, amt sdkmath.Int) {
	setAmt(ctx, balKey(addr, denom), denom, amt)
}
func (k *BK) SetSupplyRaw(ctx context.Context, denom string, amt sdkmath.Int) {
	setAmt(ctx, supKey(denom), denom, amt)
}

func (k *BK) GetBalance(ctx context.Context, addr sdk.AccAddress, denom string) sdk.Coin {
	return sdk.NewCoin(denom, getAmt(ctx, balKey(addr, denom)))
}

func (k *BK) GetAllBalances(ctx context.Context, addr sdk.AccAddress) sdk.Coins {
	var cs sdk.Coins
	for _, d := range k.Denoms {
		if a := getAmt(ctx, balKey(addr, d)); !a.IsZero() {
			cs = append(cs, sdk.NewCoin(d, a))
		}
	}
	return cs.Sort()
}

func (k *BK) HasBalance(ctx context.Context, addr sdk.AccAddress, amt sdk.Coin) bool {
	return k.GetBalance(ctx, addr, amt.Denom).IsGTE(amt)
}

func (k *BK) GetSupply(ctx context.Context, denom string) sdk.Coin {
	return sdk.NewCoin(denom, getAmt(ctx, supKey(denom)))
}

func (k *BK) HasSupply(ctx context.Context, denom string) bool {
	return bkStore(ctx).Has(supKey(denom))
}

func (k *BK) LockedCoins(ctx context.Context, addr sdk.AccAddress) sdk.Coins {
	acc := AKGetAccount(k.AK, ctx, addr)
	if acc != nil {
		if vacc, ok := acc.(vestexported.VestingAccount); ok {
			return vacc.LockedCoins(sdk.UnwrapSDKContext(ctx).BlockTime())
		}
	}
	return sdk.NewCoins()
}

func (k *BK) SpendableCoin(ctx context.Context, addr sdk.AccAddress, denom string) sdk.Coin {
	balance := k.GetBalance(ctx, addr, denom)
	locked := k.LockedCoins(ctx, addr)
	la := locked.AmountOf(denom)
	if la.GTE(balance.Amount) {
		return sdk.NewCoin(denom, sdkmath.ZeroInt())
	}
	return sdk.NewCoin(denom, balance.Amount.Sub(la))
}

func (k *BK) BlockedAddr(addr sdk.AccAddress) bool {
	for _, b := range k.Blocked {
		if sdk.AccAddress(b).Equals(addr) {
			return true
		}
	}
	return false
}

func (k *BK) subUnlockedCoins(ctx context.Context, addr sdk.AccAddress, amt sdk.Coins) error {
	if !amt.IsValid() {
		return errorsmod.Wrap(sdkerrors.ErrInvalidCoins, amt.String())
	}
	lockedCoins := k.LockedCoins(ctx, addr)
	for _, coin := range amt {
		balance := k.GetBalance(ctx, addr, coin.Denom)
		locked := sdk.NewCoin(coin.Denom, lockedCoins.AmountOf(coin.Denom))
		spendable, hasNeg := sdk.Coins{balance}.SafeSub(locked)
		if hasNeg {
			return errorsmod.Wrapf(sdkerrors.ErrInsufficientFunds, "locked amount exceeds account balance funds")
		}
		if _, hasNeg := spendable.SafeSub(coin); hasNeg {
			return errorsmod.Wrapf(sdkerrors.ErrInsufficientFunds, "spendable balance is smaller than requested")
		}
		newBalance := balance.Sub(coin)
		setAmt(ctx, balKey(addr, coin.Denom), coin.Denom, newBalance.Amount)
	}
	sdk.UnwrapSDKContext(ctx).EventManager().EmitEvent(banktypes.NewCoinSpentEvent(addr, amt))
	return nil
}

func (k *BK) addCoins(ctx context.Context, addr sdk.AccAddress, amt sdk.Coins) error {
	if !amt.IsValid() {
		return errorsmod.Wrap(sdkerrors.ErrInvalidCoins, amt.String())
	}
	for _, coin := range amt {
		balance := k.GetBalance(ctx, addr, coin.Denom)
		newBalance := balance.Add(coin)
		setAmt(ctx, balKey(addr, coin.Denom), coin.Denom, newBalance.Amount)
	}
	sdk.UnwrapSDKContext(ctx).EventManager().EmitEvent(banktypes.NewCoinReceivedEvent(addr, amt))
	return nil
}

func (k *BK) SendCoins(ctx context.Context, fromAddr, toAddr sdk.AccAddress, amt sdk.Coins) error {
	if err := k.subUnlockedCoins(ctx, fromAddr, amt); err != nil {
		return err
	}
	if err := k.addCoins(ctx, toAddr, amt); err != nil {
		return err
	}
	if !AKHasAccount(k.AK, ctx, toAddr) {
		AKSetAccount(k.AK, ctx, AKNewAccountWithAddress(k.AK, ctx, toAddr))
	}
	fromAddrString := fromAddr.String()
	sdk.UnwrapSDKContext(ctx).EventManager().EmitEvents(sdk.Events{
		sdk.NewEvent(
			banktypes.EventTypeTransfer,
			sdk.NewAttribute(banktypes.AttributeKeyRecipient, toAddr.String()),
			sdk.NewAttribute(banktypes.AttributeKeySender, fromAddrString),
			sdk.NewAttribute(sdk.AttributeKeyAmount, amt.String()),
		),
		sdk.NewEvent(
			sdk.EventTypeMessage,
			sdk.NewAttribute(banktypes.AttributeKeySender, fromAddrString),
		),
	})
	return nil
}

func (k *BK) SendCoinsFromModuleToAccount(ctx context.Context, senderModule string, recipientAddr sdk.AccAddress, amt sdk.Coins) error {
	senderAddr := AKGetModuleAddress(k.AK, senderModule)
	if senderAddr == nil {
		panic(errorsmod.Wrapf(sdkerrors.ErrUnknownAddress, "module account %s does not exist", senderModule))
	}
	if k.BlockedAddr(recipientAddr) {
		return errorsmod.Wrapf(sdkerrors.ErrUnauthorized, "address is not allowed to receive funds")
	}
	return k.SendCoins(ctx, senderAddr, recipientAddr, amt)
}

func (k *BK) SendCoinsFromModuleToModule(ctx context.Context, senderModule, recipientModule string, amt sdk.Coins) error {
	senderAddr := AKGetModuleAddress(k.AK, senderModule)
	if senderAddr == nil {
		panic(errorsmod.Wrapf(sdkerrors.ErrUnknownAddress, "module account %s does not exist", senderModule))
	}
	recipientAcc := AKGetModuleAccount(k.AK, ctx, recipientModule)
	if recipientAcc == nil {
		panic(errorsmod.Wrapf(sdkerrors.ErrUnknownAddress, "module account %s does not exist", recipientModule))
	}
	return k.SendCoins(ctx, senderAddr, recipientAcc.GetAddress(), amt)
}

func (k *BK) SendCoinsFromAccountToModule(ctx context.Context, senderAddr sdk.AccAddress, recipientModule string, amt sdk.Coins) error {
	recipientAcc := AKGetModuleAccount(k.AK, ctx, recipientModule)
	if recipientAcc == nil {
		panic(errorsmod.Wrapf(sdkerrors.ErrUnknownAddress, "module account %s does not exist", recipientModule))
	}
	return k.SendCoins(ctx, senderAddr, recipientAcc.GetAddress(), amt)
}

func (k *BK) MintCoins(ctx context.Context, moduleName string, amounts sdk.Coins) error {
	acc := AKGetModuleAccount(k.AK, ctx, moduleName)
	if acc == nil {
		panic(errorsmod.Wrapf(sdkerrors.ErrUnknownAddress, "module account %s does not exist", moduleName))
	}
	if !acc.HasPermission(authtypes.Minter) {
		panic(errorsmod.Wrapf(sdkerrors.ErrUnauthorized, "module account %s does not have permissions to mint tokens", moduleName))
	}
	if err := k.addCoins(ctx, acc.GetAddress(), amounts); err != nil {
		return err
	}
	for _, amount := range amounts {
		supply := k.GetSupply(ctx, amount.GetDenom())
		supply = supply.Add(amount)
		setAmt(ctx, supKey(supply.Denom), supply.Denom, supply.Amount)
	}
	sdk.UnwrapSDKContext(ctx).EventManager().EmitEvent(banktypes.NewCoinMintEvent(acc.GetAddress(), amounts))
	return nil
}

func (k *BK) BurnCoins(ctx context.Context, moduleName string, amounts sdk.Coins) error {
	acc := AKGetModuleAccount(k.AK, ctx, moduleName)
	if acc == nil {
		panic(errorsmod.Wrapf(sdkerrors.ErrUnknownAddress, "module account %s does not exist", moduleName))
	}
	if !acc.HasPermission(authtypes.Burner) {
		panic(errorsmod.Wrapf(sdkerrors.ErrUnauthorized, "module account %s does not have permissions to burn tokens", moduleName))
	}
	if err := k.subUnlockedCoins(ctx, acc.GetAddress(), amounts); err != nil {
		return err
	}
	for _, amount := range amounts {
		supply := k.GetSupply(ctx, amount.GetDenom())
		supply = supply.Sub(amount)
		setAmt(ctx, supKey(supply.Denom), supply.Denom, supply.Amount)
	}
	sdk.UnwrapSDKContext(ctx).EventManager().EmitEvent(banktypes.NewCoinBurnEvent(acc.GetAddress(), amounts))
	return nil
}

// ---- denomination metadata (x/bank keeps it under its own prefix) ----------------

func metaKey(denom string) []byte { return append([]byte{0x01}, denom...) }

func (k *BK) HasDenomMetaData(ctx context.Context, denom string) bool {
	return bkStore(ctx).Has(metaKey(denom))
}

func (k *BK) SetDenomMetaData(ctx context.Context, m banktypes.Metadata) {
	c := m
	bkStore(ctx).Set(metaKey(m.Base), verif.Encode(&c))
}

func (k *BK) GetDenomMetaData(ctx context.Context, denom string) (banktypes.Metadata, bool) {
	bz := bkStore(ctx).Get(metaKey(denom))
	if bz == nil {
		return banktypes.Metadata{}, false
	}
	var m banktypes.Metadata
	if !verif.Decode(bz, &m) {
		panic("model.BK: undecodable metadata")
	}
	return m, true
}
