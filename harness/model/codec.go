//go:build verif

package model

import (
	"errors"

	sdkcodec "github.com/cosmos/cosmos-sdk/codec"
	"github.com/cosmos/cosmos-sdk/codec/types"
	"github.com/cosmos/gogoproto/proto"

	"github.com/EscanBE/evermint/v12/zzverif/verif"
)

// Codec is the inverse-pair codec stub: Marshal returns an opaque handle that
// records a deep copy of the message, Unmarshal gives it back. It assumes the
// real codec is injective on the fields it encodes and that decoding inverts
// encoding (DESIGN.md §3).
type Codec struct{}

func (Codec) Marshal(o proto.Message) ([]byte, error) { return verif.Encode(o), nil }
func (Codec) MustMarshal(o proto.Message) []byte      { return verif.Encode(o) }
func (Codec) MarshalLengthPrefixed(o proto.Message) ([]byte, error) {
	return verif.Encode(o), nil
}
func (Codec) MustMarshalLengthPrefixed(o proto.Message) []byte { return verif.Encode(o) }
func (Codec) Unmarshal(bz []byte, ptr proto.Message) error {
	if !verif.Decode(bz, ptr) {
		return errors.New("model.Codec: cannot decode")
	}
	return nil
}
func (c Codec) MustUnmarshal(bz []byte, ptr proto.Message) {
	if err := c.Unmarshal(bz, ptr); err != nil {
		panic(err)
	}
}
func (c Codec) UnmarshalLengthPrefixed(bz []byte, ptr proto.Message) error {
	return c.Unmarshal(bz, ptr)
}
func (c Codec) MustUnmarshalLengthPrefixed(bz []byte, ptr proto.Message) { c.MustUnmarshal(bz, ptr) }
func (Codec) MarshalInterface(i proto.Message) ([]byte, error) {
	return verif.Encode(i), nil
}
func (Codec) UnmarshalInterface(bz []byte, ptr interface{}) error {
	if !verif.DecodeInterface(bz, ptr) {
		return errors.New("model.Codec: cannot decode interface")
	}
	return nil
}
func (Codec) UnpackAny(any *types.Any, iface interface{}) error {
	panic("model.Codec: UnpackAny not modelled")
}

// NativeCodec is set by the native environment (real protobuf codec with the
// interface registry); under the engine it stays nil and Codec{} is used.
var NativeCodec codecBinary

type codecBinary interface {
	Marshal(o proto.Message) ([]byte, error)
	MustMarshal(o proto.Message) []byte
	MarshalLengthPrefixed(o proto.Message) ([]byte, error)
	MustMarshalLengthPrefixed(o proto.Message) []byte
	Unmarshal(bz []byte, ptr proto.Message) error
	MustUnmarshal(bz []byte, ptr proto.Message)
	UnmarshalLengthPrefixed(bz []byte, ptr proto.Message) error
	MustUnmarshalLengthPrefixed(bz []byte, ptr proto.Message)
	MarshalInterface(i proto.Message) ([]byte, error)
	UnmarshalInterface(bz []byte, ptr interface{}) error
	UnpackAny(any *types.Any, iface interface{}) error
}

// CodecFor returns the codec the real keepers should use: the model stub under
// the engine, the real protobuf codec natively.
func CodecFor(_ any) codecBinary {
	if NativeCodec != nil {
		return NativeCodec
	}
	return Codec{}
}

// JSONCodec is the inverse-pair stub of the protobuf JSON codec (genesis JSON).
type JSONCodec struct{}

func (JSONCodec) MarshalInterfaceJSON(i proto.Message) ([]byte, error) { return verif.Encode(i), nil }
func (JSONCodec) UnmarshalInterfaceJSON(bz []byte, ptr interface{}) error {
	if !verif.DecodeInterface(bz, ptr) {
		return errors.New("model.JSONCodec: cannot decode interface")
	}
	return nil
}
func (JSONCodec) MarshalJSON(o proto.Message) ([]byte, error) { return verif.Encode(o), nil }
func (JSONCodec) MustMarshalJSON(o proto.Message) []byte      { return verif.Encode(o) }
func (JSONCodec) UnmarshalJSON(bz []byte, ptr proto.Message) error {
	if !verif.Decode(bz, ptr) {
		return errors.New("model.JSONCodec: cannot decode")
	}
	return nil
}
func (c JSONCodec) MustUnmarshalJSON(bz []byte, ptr proto.Message) {
	if err := c.UnmarshalJSON(bz, ptr); err != nil {
		panic(err)
	}
}

type jsonCodec interface {
	MarshalInterfaceJSON(i proto.Message) ([]byte, error)
	UnmarshalInterfaceJSON(bz []byte, ptr interface{}) error
	MarshalJSON(o proto.Message) ([]byte, error)
	MustMarshalJSON(o proto.Message) []byte
	UnmarshalJSON(bz []byte, ptr proto.Message) error
	MustUnmarshalJSON(bz []byte, ptr proto.Message)
}

// NativeJSONCodec is set by the native environment (real ProtoCodec).
var NativeJSONCodec jsonCodec

func JSONCodecFor() jsonCodec {
	if NativeJSONCodec != nil {
		return NativeJSONCodec
	}
	return JSONCodec{}
}

// Replacements for the methods of the concrete *codec.ProtoCodec (engine only).
func PCMarshal(_ *sdkcodec.ProtoCodec, o proto.Message) ([]byte, error) { return verif.Encode(o), nil }
func PCMustMarshal(_ *sdkcodec.ProtoCodec, o proto.Message) []byte      { return verif.Encode(o) }
func PCUnmarshal(_ *sdkcodec.ProtoCodec, bz []byte, ptr proto.Message) error {
	return Codec{}.Unmarshal(bz, ptr)
}
func PCMustUnmarshal(_ *sdkcodec.ProtoCodec, bz []byte, ptr proto.Message) {
	Codec{}.MustUnmarshal(bz, ptr)
}
