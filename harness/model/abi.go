//go:build verif

package model

import (
	"encoding/json"
	"errors"
	"math/big"

	"github.com/ethereum/go-ethereum/common"

	cpcabi "github.com/EscanBE/evermint/v12/x/cpc/abi"
	cpctypes "github.com/EscanBE/evermint/v12/x/cpc/types"
	"github.com/EscanBE/evermint/v12/zzverif/verif"
)

// ABI model (engine side; DESIGN.md section 3): go-ethereum's ABI codec works by reflection. Call data is
// selector(4 bytes) ++ opaque handle of the typed argument list; Unpack returns the typed values (the real codec
// decodes to in-range values of the declared types: address -> common.Address, uintN -> *big.Int in [0,2^N), ...)
// or an error for undecodable bytes; Pack returns the opaque handle of its arguments.

func AbiUnpackMethodInput(s cpcabi.CustomPrecompiledContractInfo, methodName string, fullInput []byte) ([]interface{}, error) {
	var args []interface{}
	if !verif.DecodeAny(fullInput[4:], &args) {
		return nil, errors.New("abi: cannot unmarshal call data")
	}
	return args, nil
}

func AbiPackMethodOutput(s cpcabi.CustomPrecompiledContractInfo, methodName string, args ...interface{}) ([]byte, error) {
	cp := append([]interface{}(nil), args...)
	return verif.EncodeAny(&cp), nil
}

// AbiArgs builds the opaque argument part of call data (harness side of the inverse pair).
func AbiArgs(args ...interface{}) []byte {
	cp := append([]interface{}(nil), args...)
	return verif.EncodeAny(&cp)
}

// AbiOut decodes output produced by AbiPackMethodOutput / AbiEncode*.
func AbiOut(bz []byte) ([]interface{}, bool) {
	var out []interface{}
	ok := verif.DecodeAny(bz, &out)
	return out, ok
}

func abiSingle(v interface{}) ([]byte, error) {
	cp := []interface{}{v}
	return verif.EncodeAny(&cp), nil
}

func AbiEncodeString(str string) ([]byte, error)   { return abiSingle(str) }
func AbiEncodeUint8(num uint8) ([]byte, error)     { return abiSingle(num) }
func AbiEncodeUint256(num *big.Int) ([]byte, error) { return abiSingle(num) }
func AbiEncodeBool(b bool) ([]byte, error)         { return abiSingle(b) }
func AbiEncodeArrayOfAddresses(addrs []common.Address) ([]byte, error) {
	return abiSingle(append([]common.Address(nil), addrs...))
}

// JSON of the typed contract metadata (encoding/json works by reflection): inverse pair.
func MustMarshalJson(v interface{}) []byte {
	if !verif.Symbolic() {
		bz, err := json.Marshal(v)
		if err != nil {
			panic(err)
		}
		return bz
	}
	switch m := v.(type) {
	case cpctypes.Erc20CustomPrecompiledContractMeta:
		c := m
		return verif.EncodeAny(&c)
	case cpctypes.StakingCustomPrecompiledContractMeta:
		c := m
		return verif.EncodeAny(&c)
	}
	panic("model.MustMarshalJson: unmodelled type")
}

func JsonUnmarshal(data []byte, v interface{}) error {
	if !verif.Symbolic() {
		return json.Unmarshal(data, v)
	}
	if !verif.DecodeAny(data, v) {
		return errors.New("model: undecodable JSON")
	}
	return nil
}
