//go:build verif

package model

import (
	"context"

	"cosmossdk.io/core/address"
	storetypes "cosmossdk.io/store/types"
	sdk "github.com/cosmos/cosmos-sdk/types"
	authkeeper "github.com/cosmos/cosmos-sdk/x/auth/keeper"
	authtypes "github.com/cosmos/cosmos-sdk/x/auth/types"

	"github.com/EscanBE/evermint/v12/zzverif/verif"
)

// Account keeper model. authkeeper.AccountKeeper is a concrete struct built on
// collections + the protobuf codec; under the symbolic engine its methods are
// REPLACED (engine replacement table) by the AK* functions below, which keep
// accounts in the model multistore under AuthKey: 0x01|address -> opaque handle
// of a deep copy of the account object (real SDK account types). Natively the
// real keeper runs (see NewAccountKeeper in env_native.go).

var AuthKey = storetypes.NewKVStoreKey("acc")

var akNextNumberKey = []byte("globalAccountNumber")

func akStore(ctx context.Context) storetypes.KVStore {
	return sdk.UnwrapSDKContext(ctx).MultiStore().GetKVStore(AuthKey)
}

func akKey(addr []byte) []byte {
	k := make([]byte, 0, len(addr)+1)
	k = append(k, 0x01)
	return append(k, addr...)
}

func AKHasAccount(ak authkeeper.AccountKeeper, ctx context.Context, addr sdk.AccAddress) bool {
	return akStore(ctx).Has(akKey(addr))
}

func AKGetAccount(ak authkeeper.AccountKeeper, ctx context.Context, addr sdk.AccAddress) sdk.AccountI {
	bz := akStore(ctx).Get(akKey(addr))
	if bz == nil {
		return nil
	}
	var acc sdk.AccountI
	if !verif.DecodeInterface(bz, &acc) {
		panic("model.AK: undecodable account")
	}
	return acc
}

func AKSetAccount(ak authkeeper.AccountKeeper, ctx context.Context, acc sdk.AccountI) {
	akStore(ctx).Set(akKey(acc.GetAddress()), verif.Encode(acc))
}

func AKRemoveAccount(ak authkeeper.AccountKeeper, ctx context.Context, acc sdk.AccountI) {
	akStore(ctx).Delete(akKey(acc.GetAddress()))
}

func AKNextAccountNumber(ak authkeeper.AccountKeeper, ctx context.Context) uint64 {
	st := akStore(ctx)
	var n uint64
	if bz := st.Get(akNextNumberKey); bz != nil {
		n = sdk.BigEndianToUint64(bz)
	}
	st.Set(akNextNumberKey, sdk.Uint64ToBigEndian(n+1))
	return n
}

// SetNextAccountNumber initialises the account-number sequence (harness set-up).
func SetNextAccountNumber(ctx context.Context, n uint64) {
	akStore(ctx).Set(akNextNumberKey, sdk.Uint64ToBigEndian(n))
}

func AKNewAccount(ak authkeeper.AccountKeeper, ctx context.Context, acc sdk.AccountI) sdk.AccountI {
	if err := acc.SetAccountNumber(AKNextAccountNumber(ak, ctx)); err != nil {
		panic(err)
	}
	return acc
}

func AKNewAccountWithAddress(ak authkeeper.AccountKeeper, ctx context.Context, addr sdk.AccAddress) sdk.AccountI {
	acc := &authtypes.BaseAccount{}
	if err := acc.SetAddress(addr); err != nil {
		panic(err)
	}
	return AKNewAccount(ak, ctx, acc)
}

func AKGetModuleAddress(ak authkeeper.AccountKeeper, moduleName string) sdk.AccAddress {
	if _, ok := MaccPerms[moduleName]; !ok {
		return nil
	}
	return authtypes.NewModuleAddress(moduleName)
}

func AKGetModuleAddressAndPermissions(ak authkeeper.AccountKeeper, moduleName string) (sdk.AccAddress, []string) {
	perms, ok := MaccPerms[moduleName]
	if !ok {
		return nil, []string{}
	}
	return authtypes.NewModuleAddress(moduleName), perms
}

func AKGetModuleAccountAndPermissions(ak authkeeper.AccountKeeper, ctx context.Context, moduleName string) (sdk.ModuleAccountI, []string) {
	addr, perms := AKGetModuleAddressAndPermissions(ak, moduleName)
	if addr == nil {
		return nil, []string{}
	}
	acc := AKGetAccount(ak, ctx, addr)
	if acc != nil {
		macc, ok := acc.(sdk.ModuleAccountI)
		if !ok {
			panic("account is not a module account")
		}
		return macc, perms
	}
	macc := authtypes.NewEmptyModuleAccount(moduleName, perms...)
	maccI := (AKNewAccount(ak, ctx, macc)).(sdk.ModuleAccountI)
	AKSetAccount(ak, ctx, maccI)
	return maccI, perms
}

func AKGetModuleAccount(ak authkeeper.AccountKeeper, ctx context.Context, moduleName string) sdk.ModuleAccountI {
	acc, _ := AKGetModuleAccountAndPermissions(ak, ctx, moduleName)
	return acc
}

func AKSetModuleAccount(ak authkeeper.AccountKeeper, ctx context.Context, macc sdk.ModuleAccountI) {
	AKSetAccount(ak, ctx, macc)
}

func AKAddressCodec(ak authkeeper.AccountKeeper) address.Codec { return Bech32Codec{} }

// Bech32Codec is the account address codec; String/FromString of sdk.AccAddress
// are engine intrinsics (inverse-pair), natively the real bech32 code runs.
type Bech32Codec struct{}

func (Bech32Codec) StringToBytes(text string) ([]byte, error) {
	a, err := sdk.AccAddressFromBech32(text)
	return a, err
}
func (Bech32Codec) BytesToString(bz []byte) (string, error) { return sdk.AccAddress(bz).String(), nil }

// SetNextAccountNumberCompat initialises the account-number sequence in both modes.
func SetNextAccountNumberCompat(ctx context.Context, ak authkeeper.AccountKeeper, n uint64) {
	if verif.Symbolic() {
		SetNextAccountNumber(ctx, n)
		return
	}
	if err := ak.AccountNumber.Set(ctx, n); err != nil {
		panic(err)
	}
}
