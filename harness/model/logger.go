//go:build verif

package model

import "cosmossdk.io/log"

// NopLogger is a log.Logger that does nothing (logging is not the subject of any property).
type NopLogger struct{}

func (NopLogger) Info(msg string, keyVals ...any)  {}
func (NopLogger) Warn(msg string, keyVals ...any)  {}
func (NopLogger) Error(msg string, keyVals ...any) {}
func (NopLogger) Debug(msg string, keyVals ...any) {}
func (l NopLogger) With(keyVals ...any) log.Logger { return l }
func (NopLogger) Impl() any                        { return nil }
