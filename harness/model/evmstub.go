//go:build verif

package model

import (
	"math/big"

	"github.com/ethereum/go-ethereum/common"
	ethtypes "github.com/ethereum/go-ethereum/core/types"
	corevm "github.com/ethereum/go-ethereum/core/vm"

	"github.com/EscanBE/evermint/v12/zzverif/verif"
)

// EVM bytecode-interpreter model. The fork's real (*EVM).Call / Create / create / StaticCall / ... run; only the
// bytecode loop (*EVMInterpreter).Run is replaced (through the VerifRunHook overlay hook, in the engine and in
// the native replay alike) by a Script: a bounded sequence of actions on the vm.StateDB interface drawn up-front
// by the harness, a symbolic amount of gas consumed and a symbolic outcome class.
//
// Contract assumed of the real interpreter: it acts on state only through vm.StateDB / evm.Context.Transfer /
// nested evm.Call*, it never returns more gas than it was given, and in a static context it performs no
// state-changing StateDB operation.

type ActionKind int

const (
	ActNone ActionKind = iota
	ActLog                 // AddLog(self, topic)
	ActSStore              // SetState(self, slot, val) + AddRefund(refund)
	ActTransferOut         // evm.Context.Transfer(self -> To, Amt) if CanTransfer
	ActSelfDestruct        // AddBalance(To, balance(self)); Suicide(self)
	ActCallPrecompileOrAccount // nested evm.Call(self, To, Input, gas, Amt)
	NActionKinds
)

type Action struct {
	Kind   ActionKind
	To     common.Address
	Amt    *big.Int
	Slot   common.Hash
	Val    common.Hash
	Refund uint64
	Input  []byte
}

const (
	OutSuccess = iota
	OutRevert
	OutError // e.g. out of gas / invalid opcode: consumes all gas
	NOutcomes
)

// Script is what a contract does when it runs.
type Script struct {
	Actions []Action
	GasUse  uint64 // gas consumed by the frame (capped at the gas available)
	MinGas  uint64 // head-room the frame needs on entry (63/64 rule, gasleft() checks): below it the frame runs out of gas
	Outcome int
	Ret     []byte
	// observation
	Ran      int
	RanReadOnly bool
}

// Scripts maps a code address to its behaviour; the creation frame uses CreateScript.
var (
	Scripts      map[common.Address]*Script
	CreateScript *Script
)

func ResetScripts() {
	Scripts = map[common.Address]*Script{}
	CreateScript = nil
	corevm.VerifRunHook = interpRun
}

var errStubFailure = corevm.ErrOutOfGas

func interpRun(evm *corevm.EVM, contract *corevm.Contract, input []byte, readOnly bool) ([]byte, error) {
	var sc *Script
	if contract.CodeAddr != nil {
		sc = Scripts[*contract.CodeAddr]
	}
	if sc == nil {
		// code without a registered script: the init code of a creation frame
		sc = CreateScript
	}
	if sc == nil {
		// unknown code: behaves as STOP
		return nil, nil
	}
	sc.Ran++
	static := readOnly || evm.Interpreter().VerifReadOnly()
	if static {
		sc.RanReadOnly = true
	}
	self := contract.Address()
	if contract.Gas < sc.MinGas {
		return nil, corevm.ErrOutOfGas
	}
	use := sc.GasUse
	if use > contract.Gas {
		use = contract.Gas
	}
	contract.UseGas(use)
	db := evm.StateDB
	for i := range sc.Actions {
		a := &sc.Actions[i]
		switch a.Kind {
		case ActLog:
			if static {
				return nil, corevm.ErrWriteProtection
			}
			db.AddLog(&ethtypes.Log{Address: self, Topics: []common.Hash{a.Slot}, Data: nil, BlockNumber: evm.Context.BlockNumber.Uint64()})
		case ActSStore:
			if static {
				return nil, corevm.ErrWriteProtection
			}
			db.SetState(self, a.Slot, a.Val)
			db.AddRefund(a.Refund)
		case ActTransferOut:
			if static && a.Amt.Sign() != 0 {
				return nil, corevm.ErrWriteProtection
			}
			if evm.Context.CanTransfer(db, self, a.Amt) {
				if !db.Exist(a.To) {
					db.CreateAccount(a.To)
				}
				evm.Context.Transfer(db, self, a.To, a.Amt)
			}
		case ActSelfDestruct:
			if static {
				return nil, corevm.ErrWriteProtection
			}
			bal := db.GetBalance(self)
			db.AddBalance(a.To, bal)
			db.Suicide(self)
		case ActCallPrecompileOrAccount:
			if static && a.Amt.Sign() != 0 {
				return nil, corevm.ErrWriteProtection
			}
			_, left, _ := evm.Call(contract, a.To, a.Input, contract.Gas, a.Amt)
			contract.Gas = left
		}
	}
	switch sc.Outcome {
	case OutRevert:
		return sc.Ret, corevm.ErrExecutionReverted
	case OutError:
		return nil, errStubFailure
	}
	return sc.Ret, nil
}

// NewScript draws a symbolic script with up to n actions of the given kinds over the given target addresses.
func NewScript(name string, n int, kinds []ActionKind, targets []common.Address) *Script {
	sc := &Script{}
	sc.GasUse = verif.Uint64(name + ".gasUse")
	sc.Outcome = verif.Choice(name+".outcome", NOutcomes)
	for i := 0; i < n; i++ {
		pfx := name + ".act" + string(rune('0'+i))
		a := Action{Kind: kinds[verif.Choice(pfx+".kind", len(kinds))], Amt: big.NewInt(0)}
		a.Slot = common.BytesToHash([]byte{1})
		switch a.Kind {
		case ActSStore:
			a.Val = common.BytesToHash([]byte{verif.Uint8(pfx + ".val")})
			a.Refund = verif.Uint64(pfx + ".refund")
			verif.Assume(a.Refund < 1<<62)
		case ActTransferOut, ActSelfDestruct:
			a.To = targets[verif.Choice(pfx+".to", len(targets))]
			if a.Kind == ActTransferOut {
				a.Amt = verif.Big(pfx + ".amt")
				verif.Assume(a.Amt.Sign() >= 0 && a.Amt.Cmp(new(big.Int).Lsh(big.NewInt(1), 128)) < 0)
			}
		}
		sc.Actions = append(sc.Actions, a)
	}
	return sc
}
