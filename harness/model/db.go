//go:build verif

package model

import (
	"bytes"

	sdkdb "github.com/cosmos/cosmos-db"
)

// DB is a finite ordered key/value map with atomic batches: the model of cosmos-db's DB interface used by the
// indexer harness (native replay uses the real MemDB).
type DB struct {
	kv     KV
	Writes int // batch writes that reached the database
}

func NewDB() *DB { return &DB{} }

func (d *DB) Content() *KV { return d.kv.clone() }

func (d *DB) Get(k []byte) ([]byte, error) {
	if len(k) == 0 {
		return nil, errKeyEmpty
	}
	return d.kv.Get(k), nil
}
func (d *DB) Has(k []byte) (bool, error) {
	if len(k) == 0 {
		return false, errKeyEmpty
	}
	return d.kv.Has(k), nil
}
func (d *DB) Set(k, v []byte) error {
	if len(k) == 0 {
		return errKeyEmpty
	}
	if v == nil {
		return errValueNil
	}
	d.kv.Set(k, v)
	return nil
}
func (d *DB) SetSync(k, v []byte) error { return d.Set(k, v) }
func (d *DB) Delete(k []byte) error {
	if len(k) == 0 {
		return errKeyEmpty
	}
	d.kv.Delete(k)
	return nil
}
func (d *DB) DeleteSync(k []byte) error { return d.Delete(k) }
func (d *DB) Iterator(start, end []byte) (sdkdb.Iterator, error) {
	return d.kv.collect(start, end, false), nil
}
func (d *DB) ReverseIterator(start, end []byte) (sdkdb.Iterator, error) {
	return d.kv.collect(start, end, true), nil
}
func (d *DB) Close() error                       { return nil }
func (d *DB) NewBatch() sdkdb.Batch              { return &dbBatch{db: d} }
func (d *DB) NewBatchWithSize(int) sdkdb.Batch   { return &dbBatch{db: d} }
func (d *DB) Print() error                       { return nil }
func (d *DB) Stats() map[string]string           { return nil }

type dbOp struct {
	del  bool
	k, v []byte
}

type dbBatch struct {
	db     *DB
	ops    []dbOp
	closed bool
}

func (b *dbBatch) Set(k, v []byte) error {
	if b.closed {
		return errBatchClosed
	}
	if len(k) == 0 {
		return errKeyEmpty
	}
	if v == nil {
		return errValueNil
	}
	b.ops = append(b.ops, dbOp{k: append([]byte(nil), k...), v: append([]byte{}, v...)})
	return nil
}
func (b *dbBatch) Delete(k []byte) error {
	if b.closed {
		return errBatchClosed
	}
	b.ops = append(b.ops, dbOp{del: true, k: append([]byte(nil), k...)})
	return nil
}
func (b *dbBatch) Write() error {
	if b.closed {
		return errBatchClosed
	}
	for _, o := range b.ops {
		if o.del {
			b.db.kv.Delete(o.k)
		} else {
			b.db.kv.Set(o.k, o.v)
		}
	}
	b.db.Writes++
	b.closed = true
	return nil
}
func (b *dbBatch) WriteSync() error          { return b.Write() }
func (b *dbBatch) Close() error              { b.closed = true; return nil }
func (b *dbBatch) GetByteSize() (int, error) { return 0, nil }

type dbErr string

func (e dbErr) Error() string { return string(e) }

var (
	errKeyEmpty    = dbErr("key is empty")
	errValueNil    = dbErr("value is nil")
	errBatchClosed = dbErr("batch has been written or closed")
)

var _ = bytes.Equal
