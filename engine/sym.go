package main

// Symbolic scalars, SMT term construction (Int encoding with explicit
// mod-2^k wrap-around), path state and decision handling.

import (
	"fmt"
	"go/token"
	"go/types"
	"math/big"
	"strconv"
	"strings"
)

// sym is a symbolic scalar. kind is the Go basic kind the value has in the
// target program (types.Bool, types.Uint64, ...). kind == types.UntypedInt
// denotes an unbounded mathematical integer (payload of a symbolic big.Int).
// Invariant: the term of an N-bit integer kind always denotes a value inside
// that type's range.
type sym struct {
	t    string
	kind types.BasicKind
}

func (s sym) String() string { return "sym(" + s.t + ")" }

func isSym(v value) bool { _, ok := v.(sym); return ok }

var pow2 [300]*big.Int

func init() {
	for i := range pow2 {
		pow2[i] = new(big.Int).Lsh(big.NewInt(1), uint(i))
	}
}

func bigLit(x *big.Int) string {
	if x.Sign() < 0 {
		return "(- " + new(big.Int).Neg(x).String() + ")"
	}
	return x.String()
}

func intLit(x int64) string {
	if x < 0 {
		return "(- " + strconv.FormatUint(uint64(-(x+1))+1, 10) + ")"
	}
	return strconv.FormatInt(x, 10)
}

// kindBits returns (bits, signed) for an integer kind.
func kindBits(k types.BasicKind) (int, bool) {
	switch k {
	case types.Int, types.Int64:
		return 64, true
	case types.Int8:
		return 8, true
	case types.Int16:
		return 16, true
	case types.Int32:
		return 32, true
	case types.Uint, types.Uint64, types.Uintptr:
		return 64, false
	case types.Uint8:
		return 8, false
	case types.Uint16:
		return 16, false
	case types.Uint32:
		return 32, false
	}
	panic(engineAbort{fmt.Sprintf("kindBits: not an integer kind %v", k)})
}

func isIntKind(k types.BasicKind) bool {
	switch k {
	case types.Int, types.Int8, types.Int16, types.Int32, types.Int64,
		types.Uint, types.Uint8, types.Uint16, types.Uint32, types.Uint64, types.Uintptr:
		return true
	}
	return false
}

// kindOfValue returns the basic kind of a concrete scalar value.
func kindOfValue(v value) types.BasicKind {
	switch v := v.(type) {
	case bool:
		return types.Bool
	case int:
		return types.Int
	case int8:
		return types.Int8
	case int16:
		return types.Int16
	case int32:
		return types.Int32
	case int64:
		return types.Int64
	case uint:
		return types.Uint
	case uint8:
		return types.Uint8
	case uint16:
		return types.Uint16
	case uint32:
		return types.Uint32
	case uint64:
		return types.Uint64
	case uintptr:
		return types.Uintptr
	case sym:
		return v.kind
	}
	return types.Invalid
}

// termOf returns the SMT term of a scalar (concrete or symbolic) value.
func termOf(v value) string {
	switch v := v.(type) {
	case sym:
		return v.t
	case bool:
		if v {
			return "true"
		}
		return "false"
	case int:
		return intLit(int64(v))
	case int8:
		return intLit(int64(v))
	case int16:
		return intLit(int64(v))
	case int32:
		return intLit(int64(v))
	case int64:
		return intLit(v)
	case uint:
		return strconv.FormatUint(uint64(v), 10)
	case uint8:
		return strconv.FormatUint(uint64(v), 10)
	case uint16:
		return strconv.FormatUint(uint64(v), 10)
	case uint32:
		return strconv.FormatUint(uint64(v), 10)
	case uint64:
		return strconv.FormatUint(v, 10)
	case uintptr:
		return strconv.FormatUint(uint64(v), 10)
	case *big.Int:
		return bigLit(v)
	}
	panic(engineAbort{fmt.Sprintf("termOf: unsupported %T", v)})
}

// concreteOfKind converts an integer given as *big.Int into the native Go value of kind k.
func concreteOfKind(k types.BasicKind, x *big.Int) value {
	switch k {
	case types.Bool:
		return x.Sign() != 0
	case types.Int:
		return int(x.Int64())
	case types.Int8:
		return int8(x.Int64())
	case types.Int16:
		return int16(x.Int64())
	case types.Int32:
		return int32(x.Int64())
	case types.Int64:
		return x.Int64()
	case types.Uint:
		return uint(x.Uint64())
	case types.Uint8:
		return uint8(x.Uint64())
	case types.Uint16:
		return uint16(x.Uint64())
	case types.Uint32:
		return uint32(x.Uint64())
	case types.Uint64:
		return x.Uint64()
	case types.Uintptr:
		return uintptr(x.Uint64())
	}
	panic(engineAbort{fmt.Sprintf("concreteOfKind: %v", k)})
}

// wrapTerm reduces the mathematical integer term e into the range of kind k.
func wrapTerm(k types.BasicKind, e string) string {
	if k == types.UntypedInt {
		return e
	}
	n, signed := kindBits(k)
	if !signed {
		return "(mod " + e + " " + pow2[n].String() + ")"
	}
	h := pow2[n-1].String()
	return "(- (mod (+ " + e + " " + h + ") " + pow2[n].String() + ") " + h + ")"
}

func rangeConstraint(k types.BasicKind, t string) string {
	if k == types.Bool || k == types.UntypedInt {
		return ""
	}
	n, signed := kindBits(k)
	if signed {
		return "(and (>= " + t + " (- " + pow2[n-1].String() + ")) (< " + t + " " + pow2[n-1].String() + "))"
	}
	return "(and (>= " + t + " 0) (< " + t + " " + pow2[n].String() + "))"
}

// truncated (Go) division on mathematical integers; b != 0 is the caller's duty.
func tdivTerm(a, b string) string {
	return "(let ((qa " + a + ") (qb " + b + ")) (let ((qq (div (abs qa) (abs qb)))) (ite (= (>= qa 0) (> qb 0)) qq (- qq))))"
}

func tremTerm(a, b string) string {
	return "(let ((ra " + a + ") (rb " + b + ")) (- ra (* rb " + tdivTerm("ra", "rb") + ")))"
}

func mkNot(t string) string {
	if t == "true" {
		return "false"
	}
	if t == "false" {
		return "true"
	}
	if strings.HasPrefix(t, "(not ") && balanced(t[5:len(t)-1]) {
		return t[5 : len(t)-1]
	}
	return "(not " + t + ")"
}

func balanced(s string) bool {
	d := 0
	for i := 0; i < len(s); i++ {
		switch s[i] {
		case '(':
			d++
		case ')':
			d--
			if d < 0 {
				return false
			}
		case ' ':
			if d == 0 {
				return false
			}
		}
	}
	return d == 0
}

func mkAnd(ts ...string) string {
	var out []string
	for _, t := range ts {
		if t == "true" || t == "" {
			continue
		}
		if t == "false" {
			return "false"
		}
		out = append(out, t)
	}
	switch len(out) {
	case 0:
		return "true"
	case 1:
		return out[0]
	}
	return "(and " + strings.Join(out, " ") + ")"
}

func mkOr(ts ...string) string {
	var out []string
	for _, t := range ts {
		if t == "false" || t == "" {
			continue
		}
		if t == "true" {
			return "true"
		}
		out = append(out, t)
	}
	switch len(out) {
	case 0:
		return "false"
	case 1:
		return out[0]
	}
	return "(or " + strings.Join(out, " ") + ")"
}

// boolV turns a bool term into a value, folding literals.
func boolV(t string) value {
	switch t {
	case "true":
		return true
	case "false":
		return false
	}
	return sym{t, types.Bool}
}

// symBinop evaluates a binary operator with at least one symbolic operand.
// kind is the operand kind (both operands have it, except shifts).
func symBinop(fr *frame, op token.Token, x, y value) value {
	k := kindOfValue(x)
	if k == types.Invalid {
		k = kindOfValue(y)
	}
	if _, ok := x.(string); ok {
		panic(engineAbort{"symbolic string operation"})
	}
	a, b := termOf(x), termOf(y)
	if k == types.Bool {
		switch op {
		case token.EQL:
			return boolV("(= " + a + " " + b + ")")
		case token.NEQ:
			return boolV("(not (= " + a + " " + b + "))")
		case token.AND, token.LAND:
			return boolV(mkAnd(a, b))
		case token.OR, token.LOR:
			return boolV(mkOr(a, b))
		}
		panic(engineAbort{fmt.Sprintf("symBinop: bool op %s", op)})
	}
	if k == types.Float64 || k == types.Float32 {
		panic(engineAbort{"symbolic floating point"})
	}
	switch op {
	case token.ADD:
		return sym{wrapTerm(k, "(+ "+a+" "+b+")"), k}
	case token.SUB:
		return sym{wrapTerm(k, "(- "+a+" "+b+")"), k}
	case token.MUL:
		return sym{wrapTerm(k, "(* "+a+" "+b+")"), k}
	case token.QUO:
		fr.i.checkDivZero(fr, y)
		_, signed := kindBits(k)
		if !signed {
			return sym{"(div " + a + " " + b + ")", k}
		}
		return sym{wrapTerm(k, tdivTerm(a, b)), k}
	case token.REM:
		fr.i.checkDivZero(fr, y)
		_, signed := kindBits(k)
		if !signed {
			return sym{"(mod " + a + " " + b + ")", k}
		}
		return sym{wrapTerm(k, tremTerm(a, b)), k}
	case token.SHL, token.SHR:
		if isSym(y) {
			c := fr.i.concretize(fr, y.(sym), "shift amount")
			y = c
		}
		u, ok := asUnsigned(y)
		if !ok {
			panic(targetPanic{v: fr.i.runtimeError("negative shift amount")})
		}
		s := asUint64(u)
		n, _ := kindBits(k)
		if op == token.SHL {
			if s >= uint64(n) {
				return concreteOfKind(k, new(big.Int))
			}
			return sym{wrapTerm(k, "(* "+a+" "+pow2[s].String()+")"), k}
		}
		if s >= uint64(n) {
			s = uint64(n)
		}
		return sym{"(div " + a + " " + pow2[s].String() + ")", k}
	case token.AND, token.OR, token.XOR, token.AND_NOT:
		return symBitop(op, k, x, y)
	case token.LSS:
		return boolV("(< " + a + " " + b + ")")
	case token.LEQ:
		return boolV("(<= " + a + " " + b + ")")
	case token.GTR:
		return boolV("(> " + a + " " + b + ")")
	case token.GEQ:
		return boolV("(>= " + a + " " + b + ")")
	case token.EQL:
		return boolV("(= " + a + " " + b + ")")
	case token.NEQ:
		return boolV("(not (= " + a + " " + b + "))")
	}
	panic(engineAbort{fmt.Sprintf("symBinop: op %s", op)})
}

func toBig(v value) *big.Int {
	switch v := v.(type) {
	case int:
		return big.NewInt(int64(v))
	case int8:
		return big.NewInt(int64(v))
	case int16:
		return big.NewInt(int64(v))
	case int32:
		return big.NewInt(int64(v))
	case int64:
		return big.NewInt(v)
	case uint:
		return new(big.Int).SetUint64(uint64(v))
	case uint8:
		return new(big.Int).SetUint64(uint64(v))
	case uint16:
		return new(big.Int).SetUint64(uint64(v))
	case uint32:
		return new(big.Int).SetUint64(uint64(v))
	case uint64:
		return new(big.Int).SetUint64(v)
	case uintptr:
		return new(big.Int).SetUint64(uint64(v))
	case *big.Int:
		return v
	}
	return nil
}

func symBitop(op token.Token, k types.BasicKind, x, y value) value {
	n, signed := kindBits(k)
	a, b := termOf(x), termOf(y)
	// masks with a concrete operand
	var c *big.Int
	var other string
	if !isSym(y) {
		c, other = toBig(y), a
	} else if !isSym(x) && op != token.AND_NOT {
		c, other = toBig(x), b
	}
	if c != nil && c.Sign() >= 0 && !signed {
		switch op {
		case token.AND:
			if c.Sign() == 0 {
				return concreteOfKind(k, c)
			}
			// low mask 2^j-1
			cp := new(big.Int).Add(c, big.NewInt(1))
			if cp.BitLen()-1 < len(pow2) && cp.Cmp(pow2[cp.BitLen()-1]) == 0 {
				return sym{"(mod " + other + " " + cp.String() + ")", k}
			}
			// single contiguous high mask: x & (2^n - 2^j) = x - x mod 2^j
			inv := new(big.Int).Sub(pow2[n], c)
			if inv.Sign() > 0 && inv.BitLen()-1 < len(pow2) && inv.Cmp(pow2[inv.BitLen()-1]) == 0 {
				return sym{"(- " + other + " (mod " + other + " " + inv.String() + "))", k}
			}
		case token.OR, token.XOR:
			if c.Sign() == 0 {
				return sym{other, k}
			}
		case token.AND_NOT:
			if c.Sign() == 0 {
				return sym{other, k}
			}
		}
	}
	// generic fall-back through bit-vectors
	bv := func(t string) string {
		if signed {
			t = "(mod " + t + " " + pow2[n].String() + ")"
		}
		return "((_ int2bv " + strconv.Itoa(n) + ") " + t + ")"
	}
	var e string
	switch op {
	case token.AND:
		e = "(bvand " + bv(a) + " " + bv(b) + ")"
	case token.OR:
		e = "(bvor " + bv(a) + " " + bv(b) + ")"
	case token.XOR:
		e = "(bvxor " + bv(a) + " " + bv(b) + ")"
	case token.AND_NOT:
		e = "(bvand " + bv(a) + " (bvnot " + bv(b) + "))"
	}
	r := "(bv2nat " + e + ")"
	if signed {
		h := pow2[n-1].String()
		r = "(let ((u " + r + ")) (ite (>= u " + h + ") (- u " + pow2[n].String() + ") u))"
	}
	return sym{r, k}
}

func symUnop(op token.Token, x sym) value {
	switch op {
	case token.NOT:
		return boolV(mkNot(x.t))
	case token.SUB:
		return sym{wrapTerm(x.kind, "(- "+x.t+")"), x.kind}
	case token.XOR:
		n, signed := kindBits(x.kind)
		if signed {
			return sym{"(- (- " + x.t + ") 1)", x.kind}
		}
		return sym{"(- " + new(big.Int).Sub(pow2[n], big.NewInt(1)).String() + " " + x.t + ")", x.kind}
	}
	panic(engineAbort{fmt.Sprintf("symUnop %s", op)})
}

// symConv converts a symbolic integer to another integer kind.
func symConv(dst types.BasicKind, x sym) value {
	if x.kind == types.Bool || dst == types.Bool {
		if dst == x.kind {
			return x
		}
		panic(engineAbort{"symConv: bool conversion"})
	}
	if !isIntKind(dst) {
		panic(engineAbort{fmt.Sprintf("symbolic conversion to non-integer kind %v", dst)})
	}
	if x.kind == types.UntypedInt {
		return sym{wrapTerm(dst, x.t), dst}
	}
	sn, ss := kindBits(x.kind)
	dn, ds := kindBits(dst)
	if ss == ds && dn >= sn {
		return sym{x.t, dst}
	}
	if !ss && ds && dn > sn {
		return sym{x.t, dst}
	}
	return sym{wrapTerm(dst, x.t), dst}
}
