package main

import (
	"go/token"
)

func registerAtomics(e map[string]externalFn) {
	for _, t := range []string{"Int32", "Int64", "Uint32", "Uint64", "Uintptr"} {
		t := t
		e["sync/atomic.Load"+t] = func(fr *frame, args []value) value { return *fr.ptr(args[0]) }
		e["sync/atomic.Store"+t] = func(fr *frame, args []value) value { *fr.ptr(args[0]) = args[1]; return nil }
		e["sync/atomic.Add"+t] = func(fr *frame, args []value) value {
			p := fr.ptr(args[0])
			*p = binop(fr, token.ADD, nil, *p, args[1])
			return *p
		}
		e["sync/atomic.Swap"+t] = func(fr *frame, args []value) value {
			p := fr.ptr(args[0])
			old := *p
			*p = args[1]
			return old
		}
		e["sync/atomic.CompareAndSwap"+t] = func(fr *frame, args []value) value {
			p := fr.ptr(args[0])
			if fr.i.truth(fr, equalsV(fr, nil, *p, args[1])) {
				*p = args[2]
				return true
			}
			return false
		}
		e["sync/atomic.And"+t] = func(fr *frame, args []value) value {
			p := fr.ptr(args[0])
			old := *p
			*p = binop(fr, token.AND, nil, *p, args[1])
			return old
		}
		e["sync/atomic.Or"+t] = func(fr *frame, args []value) value {
			p := fr.ptr(args[0])
			old := *p
			*p = binop(fr, token.OR, nil, *p, args[1])
			return old
		}
	}
	e["sync/atomic.LoadPointer"] = func(fr *frame, args []value) value { return *fr.ptr(args[0]) }
	e["sync/atomic.StorePointer"] = func(fr *frame, args []value) value { *fr.ptr(args[0]) = args[1]; return nil }
	// atomic.Value: struct{v any}
	e["(*sync/atomic.Value).Load"] = func(fr *frame, args []value) value {
		s := (*fr.ptr(args[0])).(structure)
		return s[0]
	}
	e["(*sync/atomic.Value).Store"] = func(fr *frame, args []value) value {
		s := (*fr.ptr(args[0])).(structure)
		s[0] = args[1]
		return nil
	}
	// atomic.Pointer[T]: struct{_ [0]*T; _ noCopy; v unsafe.Pointer}; we keep a *value in field 2
	e["(*sync/atomic.Pointer[T]).Load"] = func(fr *frame, args []value) value {
		s := (*fr.ptr(args[0])).(structure)
		if p, ok := s[2].(*value); ok {
			return p
		}
		return (*value)(nil)
	}
	e["(*sync/atomic.Pointer[T]).Store"] = func(fr *frame, args []value) value {
		s := (*fr.ptr(args[0])).(structure)
		s[2] = args[1]
		return nil
	}
	e["(*sync/atomic.Pointer[T]).CompareAndSwap"] = func(fr *frame, args []value) value {
		s := (*fr.ptr(args[0])).(structure)
		cur, _ := s[2].(*value)
		if cur == args[1].(*value) {
			s[2] = args[2]
			return true
		}
		return false
	}
}
