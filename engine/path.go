package main

// Path state: decisions, path condition, named inputs; exploration by
// re-execution under a decision prefix.

import (
	"fmt"
	"go/types"
	"math/big"
	"os"
	"path/filepath"
	"sort"
	"strings"
	"sync"

	"golang.org/x/tools/go/ssa"
)

type inputRec struct {
	Name string `json:"name"`
	Term string `json:"-"`
	Kind string `json:"kind"`
}

type pathState struct {
	sol    *solver
	hr     *harnessRun
	prefix []int
	pos    int
	taken  []int
	alts   [][]int // newly discovered alternative prefixes

	decls  []string // "(declare-const ...)" in order
	pc     []string
	nsym   int
	pathID int64
	inputs []inputRec

	steps      int64
	maxSteps   int64
	maxDecs    int
	mapPerm    bool
	mapPermMax int
	uncertain  bool // a feasibility query answered unknown on this path
	recovered  int
	lastPanic  string
	notes      map[string]string

	funcs map[*ssa.Function]bool
	stubs map[string]bool

	beRuns map[string]*beRun // big-endian encodings of symbolic integers, keyed by the term of their most significant byte

	// results collected on this path
	asserted   map[string]int // label -> evaluated count
	reached    map[string]bool
	violations []violation
	known      []violation
	incon      []string
}

type violation struct {
	Harness string            `json:"harness"`
	Label   string            `json:"label"`
	KF      string            `json:"known_finding,omitempty"`
	Inputs  map[string]string `json:"inputs"`
	Order   []string          `json:"order"`
	Prefix  []int             `json:"decisions"`
	Note    string            `json:"note,omitempty"`
	Notes   map[string]string `json:"notes,omitempty"`
	smt     string
}

func (st *pathState) noteStub(name string) {
	if st.stubs != nil {
		st.stubs[name] = true
	}
}

func (st *pathState) noteFunc(fn *ssa.Function) {
	if st.funcs != nil {
		st.funcs[fn] = true
	}
}

func sanitize(name string) string {
	var sb strings.Builder
	for _, r := range name {
		if r >= 'a' && r <= 'z' || r >= 'A' && r <= 'Z' || r >= '0' && r <= '9' || r == '_' {
			sb.WriteRune(r)
		} else {
			sb.WriteRune('_')
		}
	}
	return sb.String()
}

// fresh declares a new SMT constant.
func (st *pathState) fresh(name string, sort string) string {
	st.nsym++
	n := fmt.Sprintf("p%dv%d_%s", st.pathID, st.nsym, sanitize(name))
	d := "(declare-const " + n + " " + sort + ")"
	st.decls = append(st.decls, d)
	st.sol.send(d)
	return n
}

func (st *pathState) addPC(t string) {
	if t == "true" {
		return
	}
	st.pc = append(st.pc, t)
	st.sol.assert(t)
}

// freshInt creates a named symbolic input of an integer kind.
func (st *pathState) freshInput(name string, k types.BasicKind) sym {
	sort := "Int"
	if k == types.Bool {
		sort = "Bool"
	}
	t := st.fresh(name, sort)
	if rc := rangeConstraint(k, t); rc != "" {
		st.addPC(rc)
	}
	st.inputs = append(st.inputs, inputRec{Name: name, Term: t, Kind: types.Typ[k].Name()})
	return sym{t, k}
}

func (i *interpreter) needState(what string) *pathState {
	if i.st == nil || i.inInit > 0 {
		panic(engineAbort{"symbolic operation outside a harness path: " + what})
	}
	return i.st
}

// decideBool resolves a symbolic branch condition on the current path.
func (i *interpreter) decideBool(fr *frame, cond string) bool {
	st := i.needState("branch")
	if st.pos < len(st.prefix) {
		c := st.prefix[st.pos]
		st.pos++
		st.taken = append(st.taken, c)
		if c == 0 {
			st.addPC(cond)
		} else {
			st.addPC(mkNot(cond))
		}
		return c == 0
	}
	if len(st.taken) >= st.maxDecs {
		panic(pathEnd{"decision bound (unwinding) exhausted at " + stackOf(fr), true})
	}
	st.pos++
	r1, _ := st.sol.check(cond, nil)
	if r1 == resUnsat {
		st.taken = append(st.taken, 1)
		st.addPC(mkNot(cond))
		return false
	}
	r2, _ := st.sol.check(mkNot(cond), nil)
	if r2 == resUnsat {
		st.taken = append(st.taken, 0)
		st.addPC(cond)
		return true
	}
	if r1 == resUnknown || r2 == resUnknown {
		st.uncertain = true
		st.hr.noteUnknownBranch()
	}
	alt := append(append([]int(nil), st.taken...), 1)
	st.alts = append(st.alts, alt)
	st.taken = append(st.taken, 0)
	st.addPC(cond)
	st.hr.addDecision()
	st.hr.profFork(fr)
	return true
}

// truth turns a bool-or-sym value into a Go bool, forking if needed.
func (i *interpreter) truth(fr *frame, v value) bool {
	switch v := v.(type) {
	case bool:
		return v
	case sym:
		return i.decideBool(fr, v.t)
	}
	panic(engineAbort{fmt.Sprintf("truth of %T", v)})
}

// choose makes a bounded non-deterministic choice in [0,n).
func (i *interpreter) choose(fr *frame, n int, what string) int {
	st := i.needState("choice")
	if n <= 1 {
		return 0
	}
	if st.pos < len(st.prefix) {
		c := st.prefix[st.pos]
		st.pos++
		st.taken = append(st.taken, c)
		return c
	}
	if len(st.taken) >= st.maxDecs {
		panic(pathEnd{"decision bound (unwinding) exhausted at choice " + what + " " + stackOf(fr), true})
	}
	st.pos++
	for c := n - 1; c >= 1; c-- {
		alt := append(append([]int(nil), st.taken...), c)
		st.alts = append(st.alts, alt)
	}
	st.taken = append(st.taken, 0)
	st.hr.addDecision()
	return 0
}

// concretize case-splits a symbolic integer into its feasible concrete values.
func (i *interpreter) concretize(fr *frame, s sym, what string) value {
	i.needState("concretize")
	return i.concretizeEnum(fr, s, what)
}

// concretizeEnum enumerates feasible values of s deterministically: at each
// step it asks the solver for the smallest feasible value above the last one
// (binary search is avoided; domains here are tiny) and forks "== v" / "!= v".
func (i *interpreter) concretizeEnum(fr *frame, s sym, what string) value {
	st := i.st
	lower := "" // exclusive lower bound term
	for n := 0; n < 66; n++ {
		// smallest feasible value greater than lower: use a model and then minimise by halving attempts
		cons := ""
		if lower != "" {
			cons = "(> " + s.t + " " + lower + ")"
		}
		res, vals := st.sol.check(cons, []string{s.t})
		if res == resUnsat {
			panic(pathEnd{"concretize: no feasible value for " + what, false})
		}
		if res != resSat {
			panic(pathEnd{"cannot concretize " + what + " (solver unknown)", true})
		}
		cand, ok := new(big.Int).SetString(vals[0], 10)
		if !ok {
			panic(engineAbort{"concretize: cannot parse model value " + vals[0]})
		}
		// minimise: repeatedly ask for a smaller feasible value
		for k := 0; k < 80; k++ {
			c2 := "(< " + s.t + " " + bigLit(cand) + ")"
			if cons != "" {
				c2 = "(and " + cons + " " + c2 + ")"
			}
			r, vs := st.sol.check(c2, []string{s.t})
			if r != resSat {
				if r == resUnknown {
					panic(pathEnd{"cannot concretize " + what + " (solver unknown)", true})
				}
				break
			}
			nc, ok := new(big.Int).SetString(vs[0], 10)
			if !ok {
				break
			}
			cand = nc
		}
		if i.decideBool(fr, "(= "+s.t+" "+bigLit(cand)+")") {
			return concreteOfKind(s.kind, cand)
		}
		lower = bigLit(cand)
	}
	panic(pathEnd{"concretize: too many feasible values for " + what, true})
}

func (i *interpreter) checkDivZero(fr *frame, y value) {
	s, ok := y.(sym)
	if !ok {
		if isZeroInt(y) {
			panic(targetPanic{v: i.runtimeError("integer divide by zero")})
		}
		return
	}
	if i.decideBool(fr, "(= "+s.t+" 0)") {
		panic(targetPanic{v: i.runtimeError("integer divide by zero")})
	}
}

// ---- harness-level bookkeeping shared between workers -------------------

type harnessRun struct {
	mu          sync.Mutex
	name        string
	paths       int
	pathsEnd    int // paths that reached the end of the harness
	infeasible  int
	decisions   int
	unknownBr   int
	asserted    map[string]int
	reached     map[string]int
	violations  []violation
	known       []violation
	incon       []string
	funcs       map[string]bool
	stubs       map[string]bool
	samples     []map[string]string
	panicsSeen  int
	stepsTotal  int64
	nSat        int64
	nUnsat      int64
	nUnknown    int64
	solverErr   []string
	falsifyHits int
	falsify     bool
	openKF      map[string]bool
	dumpDir     string
	dumpMax     int
	dumped      int
	forkSites   map[string]int
}

// dumpQuery writes an assertion query (declarations, path condition, negated
// assertion) with the answer the deciding solver gave, for cross-checking.
func (h *harnessRun) dumpQuery(st *pathState, label, neg string, r satResult) {
	h.mu.Lock()
	if h.dumpDir == "" || h.dumped >= h.dumpMax || neg == "true" {
		h.mu.Unlock()
		return
	}
	h.dumped++
	n := h.dumped
	h.mu.Unlock()
	var sb strings.Builder
	sb.WriteString("; harness " + h.name + " assertion " + label + "\n; expect " + r.String() + "\n")
	for _, d := range st.decls {
		sb.WriteString(d + "\n")
	}
	for _, c := range st.pc {
		sb.WriteString("(assert " + c + ")\n")
	}
	sb.WriteString("(assert " + neg + ")\n(check-sat)\n")
	short := h.name[strings.LastIndex(h.name, ".")+1:]
	os.WriteFile(filepath.Join(h.dumpDir, fmt.Sprintf("q-%s-%04d.smt2", sanitize(short), n)), []byte(sb.String()), 0o644)
}

func stackOf(fr *frame) string {
	var parts []string
	for f, n := fr, 0; f != nil && n < 6; f, n = f.caller, n+1 {
		name := f.fn.String()
		if f.curInstr != nil && f.fn.Prog != nil {
			name += fmt.Sprintf(":%d", f.fn.Prog.Fset.Position(f.curInstr.Pos()).Line)
		}
		parts = append(parts, name)
	}
	return strings.Join(parts, " <- ")
}

var forkProf = os.Getenv("GOSYM_FORKPROF") != ""

func (h *harnessRun) profFork(fr *frame) {
	if !forkProf || fr == nil {
		return
	}
	var parts []string
	for f, n := fr, 0; f != nil && n < 4; f, n = f.caller, n+1 {
		name := f.fn.String()
		if f.curInstr != nil && f.fn.Prog != nil {
			name += fmt.Sprintf(":%d", f.fn.Prog.Fset.Position(f.curInstr.Pos()).Line)
		}
		parts = append(parts, name)
	}
	k := strings.Join(parts, " <- ")
	h.mu.Lock()
	if h.forkSites == nil {
		h.forkSites = map[string]int{}
	}
	h.forkSites[k]++
	h.mu.Unlock()
}

func (h *harnessRun) addDecision()       { h.mu.Lock(); h.decisions++; h.mu.Unlock() }
func (h *harnessRun) noteUnknownBranch() { h.mu.Lock(); h.unknownBr++; h.mu.Unlock() }

func sortedKeys(m map[string]bool) []string {
	out := make([]string, 0, len(m))
	for k := range m {
		out = append(out, k)
	}
	sort.Strings(out)
	return out
}

// beRun records that bytes (most significant first) are the big-endian encoding of the integer term val
// (created by encoding/binary Put*): comparing two such runs, or a run with concrete bytes, is comparing the values.
type beRun struct {
	val   string
	bytes []string
}

// collapseBE rewrites aligned big-endian runs in two byte sequences of equal length into single value terms:
// it returns, per position group, the pair of terms to compare (lexicographic order of the groups is preserved,
// because a big-endian run orders like its value).
func (st *pathState) collapseBE(a, b []value) (xs, ys []string, groups int, ok bool) {
	n := len(a)
	if len(b) < n {
		n = len(b)
	}
	runAt := func(s []value, k int) *beRun {
		if st == nil || st.beRuns == nil {
			return nil
		}
		sv, isSym := s[k].(sym)
		if !isSym {
			return nil
		}
		r := st.beRuns[sv.t]
		if r == nil || k+len(r.bytes) > n {
			return nil
		}
		for j, bt := range r.bytes {
			o, isSym := s[k+j].(sym)
			if !isSym || o.t != bt {
				return nil
			}
		}
		return r
	}
	concreteVal := func(s []value, k, m int) (string, bool) {
		v := new(big.Int)
		for j := 0; j < m; j++ {
			c, isC := s[k+j].(uint8)
			if !isC {
				return "", false
			}
			v.Lsh(v, 8).Or(v, big.NewInt(int64(c)))
		}
		return bigLit(v), true
	}
	any := false
	for k := 0; k < n; {
		ra, rb := runAt(a, k), runAt(b, k)
		switch {
		case ra != nil && rb != nil && len(ra.bytes) == len(rb.bytes):
			xs, ys = append(xs, ra.val), append(ys, rb.val)
			k += len(ra.bytes)
			any = true
			continue
		case ra != nil:
			if cv, isC := concreteVal(b, k, len(ra.bytes)); isC {
				xs, ys = append(xs, ra.val), append(ys, cv)
				k += len(ra.bytes)
				any = true
				continue
			}
		case rb != nil:
			if cv, isC := concreteVal(a, k, len(rb.bytes)); isC {
				xs, ys = append(xs, cv), append(ys, rb.val)
				k += len(rb.bytes)
				any = true
				continue
			}
		}
		xs, ys = append(xs, termOf(a[k])), append(ys, termOf(b[k]))
		k++
	}
	return xs, ys, len(xs), any
}
