package main

// Intrinsics: the harness API (package verif), and replacements for
// functions that cannot or should not be interpreted (fmt, errors, sync,
// atomic, time.Now, a little reflect, assembly-backed helpers).

import (
	"go/token"
	"fmt"
	"go/types"
	"math"
	"math/big"
	"os"
	"reflect"
	"sort"
	"strings"

	"golang.org/x/tools/go/ssa"
)

type externalFn func(fr *frame, args []value) value

// Key strings are from Function.String().
var externals = make(map[string]externalFn)

const verifPkg = "github.com/EscanBE/evermint/v12/zzverif/verif"

func externalsByPrefix(name string) externalFn {
	switch {
	case strings.HasPrefix(name, "runtime."), strings.HasPrefix(name, "internal/"):
		return nil
	}
	return nil
}

func argString(v value) string {
	s, ok := v.(string)
	if !ok {
		panic(engineAbort{fmt.Sprintf("expected concrete string, got %T", v)})
	}
	return s
}

func init() {
	e := externals
	v := func(n string) string { return verifPkg + "." + n }

	// ---- harness API ----------------------------------------------------
	nondet := func(k types.BasicKind) externalFn {
		return func(fr *frame, args []value) value {
			st := fr.i.needState("nondet")
			return st.freshInput(argString(args[0]), k)
		}
	}
	e[v("Bool")] = nondet(types.Bool)
	e[v("Uint64")] = nondet(types.Uint64)
	e[v("Int64")] = nondet(types.Int64)
	e[v("Uint8")] = nondet(types.Uint8)
	e[v("Uint32")] = nondet(types.Uint32)
	e[v("Int")] = nondet(types.Int)
	e[v("Big")] = func(fr *frame, args []value) value {
		st := fr.i.needState("nondet")
		s := st.freshInput(argString(args[0]), types.UntypedInt)
		return newBigCell(s)
	}
	e[v("Fill")] = func(fr *frame, args []value) value {
		st := fr.i.needState("nondet")
		name := argString(args[0])
		b := args[1].([]value)
		for k := range b {
			b[k] = st.freshInput(fmt.Sprintf("%s[%d]", name, k), types.Uint8)
		}
		return nil
	}
	e[v("Choice")] = func(fr *frame, args []value) value {
		st := fr.i.needState("choice")
		n := int(asInt64(args[1]))
		c := fr.i.choose(fr, n, argString(args[0]))
		st.inputs = append(st.inputs, inputRec{Name: argString(args[0]), Term: intLit(int64(c)), Kind: "choice"})
		return c
	}
	e[v("Assume")] = func(fr *frame, args []value) value {
		st := fr.i.needState("assume")
		switch c := args[0].(type) {
		case bool:
			if !c {
				panic(pathEnd{"assumption false", false})
			}
		case sym:
			st.addPC(c.t)
			r, _ := st.sol.check("", nil)
			if r == resUnsat {
				panic(pathEnd{"assumption infeasible", false})
			}
			if r == resUnknown {
				st.uncertain = true
			}
		}
		return nil
	}
	e[v("Assert")] = func(fr *frame, args []value) value {
		fr.i.assertion(fr, argString(args[0]), args[1], "", nil)
		return nil
	}
	e[v("AssertKF")] = func(fr *frame, args []value) value {
		fr.i.assertion(fr, argString(args[0]), args[1], argString(args[2]), args[3])
		return nil
	}
	e[v("Reach")] = func(fr *frame, args []value) value {
		st := fr.i.needState("reach")
		st.reached[argString(args[0])] = true
		return nil
	}
	// float rendering of decimals is only used for telemetry gauges
	e["(cosmossdk.io/math.LegacyDec).Float64"] = func(fr *frame, args []value) value { return tuple{float64(0), iface{}} }
	e["(cosmossdk.io/math.LegacyDec).MustFloat64"] = func(fr *frame, args []value) value { return float64(0) }
	// the gas-limit / gas-used ratio computed for a telemetry gauge in the x/evm message server: a division of
	// symbolic decimals that feeds nothing but the gauge
	e["(cosmossdk.io/math.LegacyDec).QuoInt64"] = func(fr *frame, args []value) value {
		if fr.caller != nil && strings.HasPrefix(fr.caller.fn.String(), "(*github.com/EscanBE/evermint/v12/x/evm/keeper.Keeper).EthereumTx$") {
			return args[0]
		}
		fr.i.skipExtFor = fr.fn
		return callSSA(fr.i, fr.caller, token.NoPos, fr.fn, args, nil)
	}
	// SplitAmountDenom("<amount><denom>") -> (amount, denom, ok): the inverse of Coin.String for one coin; the amount
	// may be the marked rendering of a symbolic number.
	e[v("SplitAmountDenom")] = func(fr *frame, args []value) value {
		s := argString(args[0])
		toks := tokenizeMarked(s)
		if len(toks) == 2 && toks[0].atom != "" && strings.HasPrefix(toks[0].atom, "big:") && toks[1].atom == "" {
			return tuple{newBigCell(bigSym(toks[0].atom[4:])), toks[1].lit, true}
		}
		if isMarked(s) {
			return tuple{newBigCell(new(big.Int)), "", false}
		}
		k := 0
		for k < len(s) && s[k] >= '0' && s[k] <= '9' {
			k++
		}
		if k == 0 || k == len(s) {
			return tuple{newBigCell(new(big.Int)), "", false}
		}
		n, _ := new(big.Int).SetString(s[:k], 10)
		return tuple{newBigCell(n), s[k:], true}
	}
	cmpStr := func(fr *frame, args []value) value {
		a, b := argString(args[0]), argString(args[1])
		if isMarked(a) || isMarked(b) {
			panic(engineAbort{"ordering comparison of strings standing for symbolic content"})
		}
		return strings.Compare(a, b)
	}
	e["strings.Compare"] = cmpStr
	e["internal/bytealg.CompareString"] = cmpStr
	e[v("Switch")] = func(fr *frame, args []value) value {
		fr.i.needState("switch")
		fr.i.extState["switch:"+argString(args[0])] = args[1].(bool)
		return nil
	}
	e[v("ReachIf")] = func(fr *frame, args []value) value {
		st := fr.i.needState("reach")
		lab := argString(args[0])
		if st.reached[lab] {
			return nil
		}
		switch c := args[1].(type) {
		case bool:
			if c {
				st.reached[lab] = true
			}
		case sym:
			if r, _ := st.sol.check(c.t, nil); r == resSat {
				st.reached[lab] = true
			}
		}
		return nil
	}
	e[v("Try")] = func(fr *frame, args []value) value {
		return fr.i.try(fr, args[0])
	}
	e[v("PanicMsg")] = func(fr *frame, args []value) value {
		return fr.i.needState("PanicMsg").lastPanic
	}
	// concurrency mode: goroutines, channels and locks under a scheduler whose decisions are path choices
	e[v("Schedule")] = func(fr *frame, args []value) value {
		fr.i.needState("Schedule")
		if fr.i.sched == nil {
			fr.i.sched = newScheduler(fr.i, int(asInt64(args[0])))
		}
		return nil
	}
	e[v("Quiesce")] = func(fr *frame, args []value) value {
		fr.i.needSched("verif.Quiesce").quiesce(fr)
		return nil
	}
	e[v("MapOrder")] = func(fr *frame, args []value) value {
		fr.i.needState("MapOrder").mapPerm = args[0].(bool)
		return nil
	}
	// non-forking boolean combinators (a Go && / || on symbolic operands forks the path)
	e[v("And")] = func(fr *frame, args []value) value {
		var ts []string
		for _, a := range args[0].([]value) {
			if b, ok := a.(bool); ok {
				if !b {
					return false
				}
				continue
			}
			ts = append(ts, termOf(a))
		}
		return boolV(mkAnd(ts...))
	}
	e[v("Or")] = func(fr *frame, args []value) value {
		var ts []string
		for _, a := range args[0].([]value) {
			if b, ok := a.(bool); ok {
				if b {
					return true
				}
				continue
			}
			ts = append(ts, termOf(a))
		}
		return boolV(mkOr(ts...))
	}
	e[v("Implies")] = func(fr *frame, args []value) value {
		a, b := args[0], args[1]
		if ab, ok := a.(bool); ok {
			if !ab {
				return true
			}
			return b
		}
		if bb, ok := b.(bool); ok && bb {
			return true
		}
		return boolV(mkOr(mkNot(termOf(a)), termOf(b)))
	}
	e[v("Symbolic")] = func(fr *frame, args []value) value { return true }
	e[v("Note")] = func(fr *frame, args []value) value {
		st := fr.i.needState("note")
		st.notes[argString(args[0])] = toString(args[1])
		return nil
	}
	e[v("IsConcrete")] = func(fr *frame, args []value) value {
		return !containsSym(args[0], 0)
	}

	// ---- fmt / errors -----------------------------------------------------
	e["fmt.Sprintf"] = func(fr *frame, args []value) value {
		return sprintf(fr, argString(args[0]), args[1].([]value))
	}
	e["fmt.Sprint"] = func(fr *frame, args []value) value {
		var sb strings.Builder
		for _, a := range args[0].([]value) {
			sb.WriteString(fmtValue(fr, a))
		}
		return sb.String()
	}
	e["fmt.Sprintln"] = func(fr *frame, args []value) value {
		var parts []string
		for _, a := range args[0].([]value) {
			parts = append(parts, fmtValue(fr, a))
		}
		return strings.Join(parts, " ") + "\n"
	}
	noop := func(fr *frame, args []value) value { return nil }
	e["fmt.Println"] = func(fr *frame, args []value) value { return tuple{0, iface{}} }
	e["fmt.Printf"] = func(fr *frame, args []value) value { return tuple{0, iface{}} }
	e["fmt.Print"] = func(fr *frame, args []value) value { return tuple{0, iface{}} }
	e["fmt.Fprintf"] = func(fr *frame, args []value) value { return tuple{0, iface{}} }
	// diagnostic output of the go-ethereum loggers (node-local tracer settings): printing is not the subject
	e["(*encoding/json.Encoder).Encode"] = func(fr *frame, args []value) value { return iface{} }
	e["fmt.Fprintln"] = func(fr *frame, args []value) value { return tuple{0, iface{}} }
	e["fmt.Fprint"] = func(fr *frame, args []value) value { return tuple{0, iface{}} }
	e["fmt.Errorf"] = func(fr *frame, args []value) value {
		format := argString(args[0])
		va := args[1].([]value)
		msg := sprintf(fr, format, va)
		if strings.Contains(format, "%w") {
			for _, a := range va {
				if ia, ok := a.(iface); ok && ia.t != nil && fr.i.implementsError(ia.t) {
					return fr.i.newWrapError(msg, ia)
				}
			}
		}
		return fr.i.newErrorString(msg)
	}
	// gRPC request metadata is plumbing: the context is handed on unchanged
	e["google.golang.org/grpc/metadata.AppendToOutgoingContext"] = func(fr *frame, args []value) value { return args[0] }
	e["errors.New"] = func(fr *frame, args []value) value {
		return fr.i.newErrorString(argString(args[0]))
	}
	e["errors.Is"] = func(fr *frame, args []value) value {
		return fr.i.errorsIs(fr, args[0].(iface), args[1].(iface))
	}
	e["errors.As"] = func(fr *frame, args []value) value {
		return fr.i.errorsAs(fr, args[0].(iface), args[1].(iface))
	}
	e["github.com/pkg/errors.WithStack"] = func(fr *frame, args []value) value { return args[0] }
	e["github.com/pkg/errors.New"] = func(fr *frame, args []value) value {
		return fr.i.newErrorString(argString(args[0]))
	}
	e["github.com/pkg/errors.Errorf"] = e["fmt.Errorf"]
	e["github.com/pkg/errors.Wrap"] = func(fr *frame, args []value) value {
		ia := args[0].(iface)
		if ia.t == nil {
			return iface{}
		}
		return fr.i.newWrapError(argString(args[1])+": "+fr.i.errorMsg(fr, ia), ia)
	}
	e["github.com/pkg/errors.Wrapf"] = func(fr *frame, args []value) value {
		ia := args[0].(iface)
		if ia.t == nil {
			return iface{}
		}
		return fr.i.newWrapError(sprintf(fr, argString(args[1]), args[2].([]value))+": "+fr.i.errorMsg(fr, ia), ia)
	}
	// errorsmod.Register without the process-global registry (packages of the repository
	// are re-initialised per path; the registry would reject the second registration)
	regErr := func(fr *frame, args []value) value {
		t := fr.i.errorsPkgType("cosmossdk.io/errors", "Error")
		var cell value = zero(t)
		s := cell.(structure)
		s[0] = args[0]
		s[1] = args[1]
		desc := args[2]
		grpc := value(uint32(2)) // codes.Unknown
		if len(args) == 4 {
			grpc, desc = args[2], args[3]
		}
		s[2] = desc
		s[3] = grpc
		return &cell
	}
	e["cosmossdk.io/errors.Register"] = regErr
	e["cosmossdk.io/errors.RegisterWithGRPCCode"] = regErr

	// ---- sync / atomic ------------------------------------------------------
	for _, n := range []string{
		"(*sync.Mutex).Lock", "(*sync.Mutex).Unlock", "(*sync.RWMutex).Lock", "(*sync.RWMutex).Unlock",
		"(*sync.RWMutex).RLock", "(*sync.RWMutex).RUnlock", "(*sync.WaitGroup).Add", "(*sync.WaitGroup).Done",
		"(*sync.WaitGroup).Wait", "sync.runtime_procPin", "sync.runtime_procUnpin", "sync.runtime_registerPoolCleanup",
		"runtime.SetFinalizer", "runtime.KeepAlive", "runtime.GC", "runtime.Gosched", "sync.throw", "sync.fatal",
		"(*sync.Cond).Broadcast", "(*sync.Cond).Signal",
	} {
		e[n] = noop
	}
	e["(*sync.Mutex).TryLock"] = func(fr *frame, args []value) value { return true }
	e["(*sync.Once).Do"] = func(fr *frame, args []value) value {
		// Once{done atomic.Uint32; m Mutex}: use field 0 as a flag
		p := fr.ptr(args[0])
		s := (*p).(structure)
		if b, ok := s[0].(bool); ok && b {
			return nil
		}
		s[0] = true
		call(fr.i, fr, 0, args[1], nil)
		return nil
	}
	e["(*sync.Pool).Get"] = func(fr *frame, args []value) value {
		p := fr.ptr(args[0])
		s := (*p).(structure)
		// field "New" is the last field
		newf := s[len(s)-1]
		switch f := newf.(type) {
		case *ssa.Function:
			if f == nil {
				return iface{}
			}
		}
		return call(fr.i, fr, 0, newf, nil)
	}
	e["(*sync.Pool).Put"] = noop
	e["(*sync.Map).Load"] = func(fr *frame, args []value) value {
		m := fr.i.syncMap(fr, args[0])
		v, ok := m.lookup(fr, args[1])
		if !ok {
			return tuple{iface{}, false}
		}
		return tuple{v, true}
	}
	e["(*sync.Map).Store"] = func(fr *frame, args []value) value {
		fr.i.syncMap(fr, args[0]).insert(fr, args[1], args[2])
		return nil
	}
	e["(*sync.Map).LoadOrStore"] = func(fr *frame, args []value) value {
		m := fr.i.syncMap(fr, args[0])
		if v, ok := m.lookup(fr, args[1]); ok {
			return tuple{v, true}
		}
		m.insert(fr, args[1], args[2])
		return tuple{args[2], false}
	}
	e["(*sync.Map).Delete"] = func(fr *frame, args []value) value {
		fr.i.syncMap(fr, args[0]).delete(fr, args[1])
		return nil
	}
	e["(*sync.Map).Range"] = func(fr *frame, args []value) value {
		m := fr.i.syncMap(fr, args[0])
		for _, en := range m.live() {
			if !fr.i.truth(fr, call(fr.i, fr, 0, args[1], []value{en.key, en.val})) {
				break
			}
		}
		return nil
	}
	registerAtomics(e)
	registerConcurrency(e)

	// ---- time ------------------------------------------------------------------
	e["time.Now"] = func(fr *frame, args []value) value {
		// symbolic wall clock: wall=0 (no monotonic reading), ext=seconds since year 1, loc=Local(nil)
		st := fr.i.needState("time.Now")
		st.nsym++
		s := st.freshInput(fmt.Sprintf("time.Now#%d", st.nsym), types.Int64)
		// keep it in a sane range: years 1970..2200 (unix 0 .. 7258118400), internal = unix + 62135596800
		st.addPC("(and (>= " + s.t + " 62135596800) (<= " + s.t + " 69393715200))")
		return structure{uint64(0), s, (*value)(nil)}
	}
	e["time.runtimeNano"] = func(fr *frame, args []value) value { return int64(1) }
	e["time.now"] = func(fr *frame, args []value) value {
		panic(engineAbort{"time.now"})
	}
	e["time.Since"] = func(fr *frame, args []value) value { return int64(0) }
	// time.Sleep: see registerConcurrency (no-op outside concurrency mode)

	// ---- os / runtime ------------------------------------------------------------
	e["os.Getenv"] = func(fr *frame, args []value) value { return "" }
	e["os.LookupEnv"] = func(fr *frame, args []value) value { return tuple{"", false} }
	e["runtime.Callers"] = func(fr *frame, args []value) value { return 0 }
	e["runtime.Caller"] = func(fr *frame, args []value) value { return tuple{uintptr(0), "", 0, false} }
	e["runtime.GOMAXPROCS"] = func(fr *frame, args []value) value { return 1 }
	e["runtime.NumCPU"] = func(fr *frame, args []value) value { return 1 }
	e["runtime/debug.Stack"] = func(fr *frame, args []value) value { return []value{} }
	e["runtime/debug.PrintStack"] = noop

	// ---- reflect (minimal) -------------------------------------------------------
	e["reflect.ValueOf"] = func(fr *frame, args []value) value {
		return rvalue{args[0].(iface)}
	}
	e["(reflect.Value).IsNil"] = func(fr *frame, args []value) value {
		rv, ok := args[0].(rvalue)
		if !ok {
			panic(engineAbort{"reflect.Value.IsNil on unsupported value"})
		}
		switch x := rv.v.v.(type) {
		case *value:
			return x == nil
		case *smap:
			return x == nil
		case []value:
			return x == nil
		case iface:
			return x.t == nil
		case *ssa.Function:
			return x == nil
		case *closure:
			return x == nil
		case nil:
			panic(targetPanic{v: fr.i.runtimeError("reflect: call of reflect.Value.IsNil on zero Value")})
		}
		panic(targetPanic{v: fr.i.runtimeError("reflect: call of reflect.Value.IsNil on non-nillable Value")})
	}
	e["(reflect.Value).IsValid"] = func(fr *frame, args []value) value {
		rv, ok := args[0].(rvalue)
		return ok && rv.v.t != nil
	}
	e["(reflect.Value).Kind"] = func(fr *frame, args []value) value {
		rv, ok := args[0].(rvalue)
		if !ok || rv.v.t == nil {
			return uint(reflect.Invalid)
		}
		return uint(reflectKind(rv.v.t))
	}
	e["reflect.TypeOf"] = func(fr *frame, args []value) value {
		return iface{t: rtypeType, v: rtype{args[0].(iface).t}}
	}

	// ---- bytes / strings (assembly-backed or symbolic-aware) ---------------------
	e["bytes.Equal"] = func(fr *frame, args []value) value {
		a := args[0].([]value)
		b := args[1].([]value)
		if len(a) != len(b) {
			return false
		}
		if xs, ys, _, any := fr.i.st.collapseBE(a, b); any {
			var acc []string
			for k := range xs {
				if xs[k] != ys[k] {
					acc = append(acc, "(= "+xs[k]+" "+ys[k]+")")
				}
			}
			return boolV(mkAnd(acc...))
		}
		var acc []string
		for k := range a {
			switch r := equalsV(fr, nil, a[k], b[k]).(type) {
			case bool:
				if !r {
					return false
				}
			case sym:
				acc = append(acc, r.t)
			}
		}
		return boolV(mkAnd(acc...))
	}
	e["cosmossdk.io/store/types.PrefixEndBytes"] = func(fr *frame, args []value) value {
		p, _ := args[0].([]value)
		if len(p) == 0 {
			return []value(nil)
		}
		if raw, ok := bytesAllConcrete(p); ok {
			end := append([]byte(nil), raw...)
			for {
				if end[len(end)-1] != 255 {
					end[len(end)-1]++
					break
				}
				end = end[:len(end)-1]
				if len(end) == 0 {
					return []value(nil)
				}
			}
			out := make([]value, len(end))
			for k := range end {
				out[k] = end[k]
			}
			return out
		}
		out := make([]value, 0, len(p)+1)
		out = append(out, p...)
		return append(out, prefixEndMark{})
	}
	e["bytes.Compare"] = func(fr *frame, args []value) value {
		return bytesCompare(fr, args[0].([]value), args[1].([]value))
	}
	e["bytes.IndexByte"] = func(fr *frame, args []value) value {
		s := args[0].([]value)
		c := args[1]
		for k, b := range s {
			if fr.i.truth(fr, equalsV(fr, nil, b, c)) {
				return k
			}
		}
		return -1
	}
	e["internal/bytealg.IndexByteString"] = func(fr *frame, args []value) value {
		return strings.IndexByte(argString(args[0]), args[1].(byte))
	}
	e["strings.IndexByte"] = e["internal/bytealg.IndexByteString"]
	e["strings.Index"] = func(fr *frame, args []value) value {
		return strings.Index(argString(args[0]), argString(args[1]))
	}
	e["strings.Count"] = func(fr *frame, args []value) value {
		return strings.Count(argString(args[0]), argString(args[1]))
	}
	e["internal/bytealg.CountString"] = func(fr *frame, args []value) value {
		return strings.Count(argString(args[0]), string([]byte{args[1].(byte)}))
	}
	e["internal/bytealg.IndexString"] = e["strings.Index"]
	e["internal/bytealg.MakeNoZero"] = func(fr *frame, args []value) value {
		n := int(asInt64(args[0]))
		out := make([]value, n)
		for k := range out {
			out[k] = uint8(0)
		}
		return out
	}
	e["strings.EqualFold"] = func(fr *frame, args []value) value {
		return strings.EqualFold(argString(args[0]), argString(args[1]))
	}
	e["strings.ToLower"] = func(fr *frame, args []value) value { return strings.ToLower(argString(args[0])) }
	e["strings.ToUpper"] = func(fr *frame, args []value) value { return strings.ToUpper(argString(args[0])) }
	e["strings.TrimSpace"] = func(fr *frame, args []value) value { return strings.TrimSpace(argString(args[0])) }
	e["strings.Contains"] = func(fr *frame, args []value) value {
		return strings.Contains(argString(args[0]), argString(args[1]))
	}
	e["strings.HasPrefix"] = func(fr *frame, args []value) value {
		return strings.HasPrefix(argString(args[0]), argString(args[1]))
	}
	e["strings.HasSuffix"] = func(fr *frame, args []value) value {
		return strings.HasSuffix(argString(args[0]), argString(args[1]))
	}
	e["strings.Replace"] = func(fr *frame, args []value) value {
		return strings.Replace(argString(args[0]), argString(args[1]), argString(args[2]), args[3].(int))
	}
	e["strings.ReplaceAll"] = func(fr *frame, args []value) value {
		return strings.ReplaceAll(argString(args[0]), argString(args[1]), argString(args[2]))
	}
	e["strings.Split"] = func(fr *frame, args []value) value {
		parts := strings.Split(argString(args[0]), argString(args[1]))
		out := make([]value, len(parts))
		for k, p := range parts {
			out[k] = p
		}
		return out
	}
	e["strings.Join"] = func(fr *frame, args []value) value {
		var parts []string
		for _, p := range args[0].([]value) {
			parts = append(parts, argString(p))
		}
		return strings.Join(parts, argString(args[1]))
	}
	e["(*strings.Builder).String"] = nil
	delete(e, "(*strings.Builder).String")
	e["strings.(*Builder).copyCheck"] = noop
	e["(*strings.Builder).copyCheck"] = noop
	e["unsafe.String"] = func(fr *frame, args []value) value { panic(engineAbort{"unsafe.String"}) }
	e["(*strings.Builder).String"] = func(fr *frame, args []value) value {
		p := fr.ptr(args[0])
		s := (*p).(structure)
		buf := s[1].([]value)
		bs := make([]byte, len(buf))
		for k := range buf {
			b, ok := buf[k].(uint8)
			if !ok {
				panic(engineAbort{"strings.Builder holds symbolic bytes"})
			}
			bs[k] = b
		}
		return string(bs)
	}

	// ---- math ----------------------------------------------------------------------
	e["math.Float64bits"] = func(fr *frame, args []value) value { return math.Float64bits(args[0].(float64)) }
	e["math.Float64frombits"] = func(fr *frame, args []value) value { return math.Float64frombits(args[0].(uint64)) }
	e["math.Float32bits"] = func(fr *frame, args []value) value { return math.Float32bits(args[0].(float32)) }
	e["math.Float32frombits"] = func(fr *frame, args []value) value { return math.Float32frombits(args[0].(uint32)) }
	e["math.Abs"] = func(fr *frame, args []value) value { return math.Abs(args[0].(float64)) }
	e["math.Floor"] = func(fr *frame, args []value) value { return math.Floor(args[0].(float64)) }
	e["math.Ceil"] = func(fr *frame, args []value) value { return math.Ceil(args[0].(float64)) }
	e["math.Log"] = func(fr *frame, args []value) value { return math.Log(args[0].(float64)) }
	e["math.Log2"] = func(fr *frame, args []value) value { return math.Log2(args[0].(float64)) }
	e["math.Sqrt"] = func(fr *frame, args []value) value { return math.Sqrt(args[0].(float64)) }
	e["math.Pow"] = func(fr *frame, args []value) value { return math.Pow(args[0].(float64), args[1].(float64)) }
	e["math.Inf"] = func(fr *frame, args []value) value { return math.Inf(args[0].(int)) }
	e["math.NaN"] = func(fr *frame, args []value) value { return math.NaN() }
	e["math.IsNaN"] = func(fr *frame, args []value) value { return math.IsNaN(args[0].(float64)) }
	e["math.IsInf"] = func(fr *frame, args []value) value { return math.IsInf(args[0].(float64), args[1].(int)) }

	// ---- sort ----------------------------------------------------------------------
	e["sort.Slice"] = func(fr *frame, args []value) value { sortSlice(fr, args[0], args[1], false); return nil }
	e["sort.SliceStable"] = func(fr *frame, args []value) value { sortSlice(fr, args[0], args[1], true); return nil }
	e["sort.Strings"] = func(fr *frame, args []value) value {
		x := args[0].([]value)
		sort.Slice(x, func(a, b int) bool { return x[a].(string) < x[b].(string) })
		return nil
	}

	// ---- math/bits with symbolic operands ------------------------------------------
	e["math/bits.Mul64"] = func(fr *frame, args []value) value {
		x, y := args[0], args[1]
		if !isSym(x) && !isSym(y) {
			p := new(big.Int).Mul(toBig(x), toBig(y))
			hi := new(big.Int).Rsh(p, 64)
			lo := new(big.Int).And(p, new(big.Int).Sub(pow2[64], big.NewInt(1)))
			return tuple{hi.Uint64(), lo.Uint64()}
		}
		p := "(* " + termOf(x) + " " + termOf(y) + ")"
		return tuple{sym{"(div " + p + " " + pow2[64].String() + ")", types.Uint64}, sym{"(mod " + p + " " + pow2[64].String() + ")", types.Uint64}}
	}
	e["math/bits.Add64"] = func(fr *frame, args []value) value {
		x, y, c := args[0], args[1], args[2]
		if !isSym(x) && !isSym(y) && !isSym(c) {
			s := new(big.Int).Add(toBig(x), toBig(y))
			s.Add(s, toBig(c))
			return tuple{new(big.Int).And(s, new(big.Int).Sub(pow2[64], big.NewInt(1))).Uint64(), new(big.Int).Rsh(s, 64).Uint64()}
		}
		s := "(+ " + termOf(x) + " " + termOf(y) + " " + termOf(c) + ")"
		return tuple{sym{"(mod " + s + " " + pow2[64].String() + ")", types.Uint64}, sym{"(div " + s + " " + pow2[64].String() + ")", types.Uint64}}
	}
}

// rvalue is the engine's stand-in for reflect.Value (only IsNil/IsValid/Kind).
type rvalue struct{ v iface }

var rtypeType = types.NewNamed(types.NewTypeName(0, nil, "rtype", nil), types.NewStruct(nil, nil), nil)

func reflectKind(t types.Type) reflect.Kind {
	switch t := t.Underlying().(type) {
	case *types.Pointer:
		return reflect.Ptr
	case *types.Struct:
		return reflect.Struct
	case *types.Slice:
		return reflect.Slice
	case *types.Map:
		return reflect.Map
	case *types.Interface:
		return reflect.Interface
	case *types.Array:
		return reflect.Array
	case *types.Signature:
		return reflect.Func
	case *types.Basic:
		switch t.Kind() {
		case types.Bool:
			return reflect.Bool
		case types.String:
			return reflect.String
		case types.Int:
			return reflect.Int
		case types.Int64:
			return reflect.Int64
		case types.Uint64:
			return reflect.Uint64
		case types.Uint8:
			return reflect.Uint8
		}
	}
	return reflect.Invalid
}

func containsSym(v value, depth int) bool {
	if depth > 8 {
		return false
	}
	switch v := v.(type) {
	case sym:
		return true
	case structure:
		for _, e := range v {
			if containsSym(e, depth+1) {
				return true
			}
		}
	case array:
		for _, e := range v {
			if containsSym(e, depth+1) {
				return true
			}
		}
	case []value:
		for _, e := range v {
			if containsSym(e, depth+1) {
				return true
			}
		}
	case iface:
		return containsSym(v.v, depth+1)
	case *value:
		if v != nil {
			return containsSym(*v, depth+1)
		}
	}
	return false
}

// prefixEndMark terminates the value returned by storetypes.PrefixEndBytes for a prefix with symbolic bytes:
// [p0..pn-1, MARK] stands for "the smallest byte string greater than every string with prefix p".
type prefixEndMark struct{}

func hasPrefixEndMark(a []value) bool {
	if len(a) == 0 {
		return false
	}
	_, ok := a[len(a)-1].(prefixEndMark)
	return ok
}

func bytesCompare(fr *frame, a, b []value) value {
	if hasPrefixEndMark(b) {
		// k < PrefixEnd(p)  <=>  cmp(k[:min(len k, len p)], p) <= 0
		p := b[:len(b)-1]
		k := a
		if hasPrefixEndMark(a) {
			panic(engineAbort{"comparison of two symbolic prefix-end bounds"})
		}
		if len(k) > len(p) {
			k = k[:len(p)]
		}
		c := bytesCompare(fr, k, p)
		if ci, ok := c.(int); ok {
			if ci <= 0 {
				return -1
			}
			return 1
		}
		return sym{"(ite (<= " + termOf(c) + " 0) (- 1) 1)", types.Int}
	}
	if hasPrefixEndMark(a) {
		c := bytesCompare(fr, b, a)
		if ci, ok := c.(int); ok {
			return -ci
		}
		return sym{"(- " + termOf(c) + ")", types.Int}
	}
	n := len(a)
	if len(b) < n {
		n = len(b)
	}
	tail := 0
	if len(a) < len(b) {
		tail = -1
	} else if len(a) > len(b) {
		tail = 1
	}
	// walk from the front; stop at the first position where both bytes are concrete and differ
	type pair struct{ x, y string }
	var pairs []pair
	if xs, ys, _, any := fr.i.st.collapseBE(a[:n], b[:n]); any {
		for k := range xs {
			if xs[k] != ys[k] {
				pairs = append(pairs, pair{xs[k], ys[k]})
			}
		}
		n = 0 // the groups replace the byte-wise walk
	}
	for k := 0; k < n; k++ {
		xa, xok := a[k].(uint8)
		yb, yok := b[k].(uint8)
		if xok && yok {
			if xa == yb {
				continue
			}
			if xa < yb {
				tail = -1
			} else {
				tail = 1
			}
			break
		}
		x, y := termOf(a[k]), termOf(b[k])
		if x == y {
			continue
		}
		pairs = append(pairs, pair{x, y})
	}
	if len(pairs) == 0 {
		return tail
	}
	t := intLit(int64(tail))
	for k := len(pairs) - 1; k >= 0; k-- {
		x, y := pairs[k].x, pairs[k].y
		t = "(ite (< " + x + " " + y + ") (- 1) (ite (> " + x + " " + y + ") 1 " + t + "))"
	}
	return sym{t, types.Int}
}

func sortSlice(fr *frame, sl value, less value, stable bool) {
	ia := sl.(iface)
	x, ok := ia.v.([]value)
	if !ok {
		panic(engineAbort{"sort.Slice on non-slice"})
	}
	// insertion sort driven by the target's less(i,j) on a working copy (n is small);
	// the closure indexes the live slice, so we permute in place with swaps.
	n := len(x)
	for a := 1; a < n; a++ {
		for b := a; b > 0; b-- {
			if fr.i.truth(fr, call(fr.i, fr, 0, less, []value{b, b - 1})) {
				x[b], x[b-1] = x[b-1], x[b]
			} else {
				break
			}
		}
	}
}

// ---- try / assertion ---------------------------------------------------------

func (i *interpreter) try(fr *frame, fn value) (res value) {
	st := i.needState("Try")
	depth := i.callDepth
	defer func() {
		if r := recover(); r != nil {
			tp, ok := r.(targetPanic)
			if !ok {
				panic(r)
			}
			i.callDepth = depth
			st.lastPanic = panicValueString(i, fr, tp.v)
			res = true
		}
	}()
	call(i, fr, 0, fn, nil)
	return false
}

func panicValueString(i *interpreter, fr *frame, v value) (s string) {
	defer func() {
		if r := recover(); r != nil {
			s = "<panic value>"
		}
	}()
	if ia, ok := v.(iface); ok && ia.t != nil {
		if i.implementsError(ia.t) {
			return i.errorMsg(fr, ia)
		}
		return toString(ia.v)
	}
	return toString(v)
}

func (i *interpreter) assertion(fr *frame, label string, cond value, kf string, region value) {
	st := i.needState("assert")
	st.asserted[label]++
	if st.hr.falsify {
		cond = false
	}
	var ct string
	switch c := cond.(type) {
	case bool:
		if c {
			return
		}
		ct = "false"
	case sym:
		ct = c.t
	default:
		panic(engineAbort{fmt.Sprintf("assert on %T", cond)})
	}
	neg := mkNot(ct)
	kfOpen := kf != "" && st.hr.openKF[kf]
	if kfOpen {
		rt := termOf(region)
		// (a) inside the known region: witness => KNOWN-FINDING
		r, vals := st.sol.check(mkAnd(neg, rt), st.inputTerms())
		if r == resSat {
			st.known = append(st.known, st.mkViolation(label, kf, vals, mkAnd(neg, rt)))
		}
		// (b) outside the region: any counterexample is a new violation
		neg = mkAnd(neg, mkNot(rt))
	}
	r, vals := st.sol.check(neg, st.inputTerms())
	st.hr.dumpQuery(st, label, neg, r)
	switch r {
	case resSat:
		st.violations = append(st.violations, st.mkViolation(label, "", vals, neg))
	case resUnknown:
		st.incon = append(st.incon, "assertion "+label+": solver unknown")
	}
	// continue under the assumption that the assertion holds
	if ct == "false" {
		panic(pathEnd{"assertion failed on every input of this path", false})
	}
	st.addPC(ct)
	if r == resSat {
		if rr, _ := st.sol.check("", nil); rr == resUnsat {
			panic(pathEnd{"assertion failed on every input of this path", false})
		}
	}
}

func (st *pathState) inputTerms() []string {
	var ts []string
	for _, in := range st.inputs {
		ts = append(ts, in.Term)
	}
	return ts
}

func (st *pathState) mkViolation(label, kf string, vals []string, extra string) violation {
	v := violation{Harness: st.hr.name, Label: label, KF: kf, Inputs: map[string]string{}, Prefix: append([]int(nil), st.taken...)}
	for k, in := range st.inputs {
		if k < len(vals) {
			name := in.Name
			if _, dup := v.Inputs[name]; dup {
				name = fmt.Sprintf("%s#%d", in.Name, k)
			}
			v.Inputs[name] = vals[k]
			v.Order = append(v.Order, name)
		}
	}
	v.Notes = map[string]string{}
	for k, n := range st.notes {
		v.Notes[k] = n
	}
	var sb strings.Builder
	for _, d := range st.decls {
		sb.WriteString(d + "\n")
	}
	for _, p := range st.pc {
		sb.WriteString("(assert " + p + ")\n")
	}
	sb.WriteString("(assert " + extra + ")\n(check-sat)\n")
	v.smt = sb.String()
	return v
}

// ---- errors ------------------------------------------------------------------

func (i *interpreter) errorsPkgType(pkg, name string) types.Type {
	p := i.prog.ImportedPackage(pkg)
	if p == nil {
		panic(engineAbort{"package " + pkg + " not loaded"})
	}
	return p.Type(name).Object().Type()
}

func (i *interpreter) newErrorString(msg string) value {
	t := i.errorsPkgType("errors", "errorString")
	var cell value = structure{msg}
	return iface{t: types.NewPointer(t), v: &cell}
}

func (i *interpreter) newWrapError(msg string, inner iface) value {
	t := i.errorsPkgType("fmt", "wrapError")
	var cell value = structure{msg, inner}
	return iface{t: types.NewPointer(t), v: &cell}
}

var errorIface = types.Universe.Lookup("error").Type().Underlying().(*types.Interface)

func (i *interpreter) implementsError(t types.Type) bool {
	return types.Implements(t, errorIface)
}

func (i *interpreter) callMethod(fr *frame, recv iface, name string, args ...value) (value, bool) {
	ms := i.prog.MethodSets.MethodSet(recv.t)
	for k := 0; k < ms.Len(); k++ {
		sel := ms.At(k)
		if sel.Obj().Name() == name {
			fn := i.prog.MethodValue(sel)
			if fn == nil {
				return nil, false
			}
			return call(i, fr, 0, fn, append([]value{recv.v}, args...)), true
		}
	}
	return nil, false
}

func (i *interpreter) errorMsg(fr *frame, e iface) string {
	if e.t == nil {
		return "<nil>"
	}
	r, ok := i.callMethod(fr, e, "Error")
	if !ok {
		return "<error>"
	}
	s, _ := r.(string)
	return s
}

func (i *interpreter) unwrap(fr *frame, e iface) (iface, bool) {
	ms := i.prog.MethodSets.MethodSet(e.t)
	for k := 0; k < ms.Len(); k++ {
		sel := ms.At(k)
		if sel.Obj().Name() == "Unwrap" {
			sig := sel.Type().(*types.Signature)
			if sig.Params().Len() == 0 && sig.Results().Len() == 1 && types.Identical(sig.Results().At(0).Type(), types.Universe.Lookup("error").Type()) {
				r, ok := i.callMethod(fr, e, "Unwrap")
				if !ok {
					return iface{}, false
				}
				return r.(iface), true
			}
		}
		if sel.Obj().Name() == "Cause" {
			sig := sel.Type().(*types.Signature)
			if sig.Params().Len() == 0 && sig.Results().Len() == 1 {
				_ = sig
			}
		}
	}
	return iface{}, false
}

func (i *interpreter) errorsIs(fr *frame, err, target iface) value {
	for depth := 0; depth < 50 && err.t != nil; depth++ {
		if sameType(err.t, target.t) && types.Comparable(err.t) {
			if i.truth(fr, equalsV(fr, err.t, err.v, target.v)) {
				return true
			}
		}
		// Is method
		ms := i.prog.MethodSets.MethodSet(err.t)
		for k := 0; k < ms.Len(); k++ {
			sel := ms.At(k)
			if sel.Obj().Name() == "Is" {
				sig := sel.Type().(*types.Signature)
				if sig.Params().Len() == 1 && sig.Results().Len() == 1 {
					r, _ := i.callMethod(fr, err, "Is", target)
					if i.truth(fr, r) {
						return true
					}
				}
			}
		}
		next, ok := i.unwrap(fr, err)
		if !ok {
			return false
		}
		err = next
	}
	return false
}

func (i *interpreter) errorsAs(fr *frame, err, target iface) value {
	pt, ok := target.t.Underlying().(*types.Pointer)
	if !ok {
		panic(targetPanic{v: i.runtimeError("errors: target must be a non-nil pointer")})
	}
	tt := pt.Elem()
	dst := fr.ptr(target.v)
	for depth := 0; depth < 50 && err.t != nil; depth++ {
		if types.AssignableTo(err.t, tt) {
			if _, isI := tt.Underlying().(*types.Interface); isI {
				*dst = err
			} else {
				*dst = err.v
			}
			return true
		}
		next, ok := i.unwrap(fr, err)
		if !ok {
			return false
		}
		err = next
	}
	return false
}

// ---- sync.Map backing ----------------------------------------------------------

func (i *interpreter) syncMap(fr *frame, p value) *smap {
	pp := fr.ptr(p)
	key := fmt.Sprintf("syncmap:%p", pp)
	if m, ok := i.extState[key]; ok {
		return m.(*smap)
	}
	m := &smap{keyType: nil, cidx: map[string]*ment{}}
	i.extState[key] = m
	return m
}

// ---- formatting ------------------------------------------------------------------

func fmtValue(fr *frame, v value) (s string) {
	defer func() {
		if r := recover(); r != nil {
			if _, ok := r.(targetPanic); ok {
				s = "<panic in formatting>"
				return
			}
			panic(r)
		}
	}()
	switch x := v.(type) {
	case iface:
		if x.t == nil {
			return "<nil>"
		}
		if fr.i.implementsError(x.t) {
			return fr.i.errorMsg(fr, x)
		}
		if r, ok := fr.i.callStringer(fr, x); ok {
			return r
		}
		return fmtValue(fr, x.v)
	case string:
		return x
	case sym:
		return markString(x.t)
	case []value:
		// []byte prints as bytes; keep it short
		var sb strings.Builder
		sb.WriteString("[")
		for k, e := range x {
			if k > 0 {
				sb.WriteString(" ")
			}
			if k > 40 {
				sb.WriteString("...")
				break
			}
			sb.WriteString(fmtValue(fr, e))
		}
		sb.WriteString("]")
		return sb.String()
	case *value:
		if x == nil {
			return "<nil>"
		}
		return "&" + fmtValue(fr, *x)
	case structure, array:
		return toString(x)
	case nil:
		return "<nil>"
	}
	return fmt.Sprint(v)
}

func (i *interpreter) callStringer(fr *frame, x iface) (string, bool) {
	ms := i.prog.MethodSets.MethodSet(x.t)
	for k := 0; k < ms.Len(); k++ {
		sel := ms.At(k)
		if sel.Obj().Name() == "String" {
			sig := sel.Type().(*types.Signature)
			if sig.Params().Len() == 0 && sig.Results().Len() == 1 {
				if b, ok := sig.Results().At(0).Type().(*types.Basic); ok && b.Kind() == types.String {
					r, ok := i.callMethod(fr, x, "String")
					if ok {
						if s, ok := r.(string); ok {
							return s, true
						}
					}
				}
			}
		}
	}
	return "", false
}

// sprintf implements a useful subset of fmt.Sprintf over interpreter values.
func sprintf(fr *frame, format string, args []value) string {
	var sb strings.Builder
	ai := 0
	for k := 0; k < len(format); k++ {
		c := format[k]
		if c != '%' {
			sb.WriteByte(c)
			continue
		}
		// parse verb
		j := k + 1
		for j < len(format) && strings.IndexByte("+-# 0123456789.*[]", format[j]) >= 0 {
			j++
		}
		if j >= len(format) {
			sb.WriteString(format[k:])
			break
		}
		verb := format[j]
		spec := format[k : j+1]
		k = j
		if verb == '%' {
			sb.WriteByte('%')
			continue
		}
		if ai >= len(args) {
			sb.WriteString("%!" + string(verb) + "(MISSING)")
			continue
		}
		a := args[ai]
		ai++
		// unwrap interface for basic values
		var inner value = a
		if ia, ok := a.(iface); ok {
			inner = ia.v
			if ia.t == nil {
				sb.WriteString("<nil>")
				continue
			}
		}
		switch verb {
		case 'd', 'x', 'X', 'c', 'b', 'o', 'q', 'U', 'e', 'f', 'g', 't':
			switch iv := inner.(type) {
			case int, int8, int16, int32, int64, uint, uint8, uint16, uint32, uint64, uintptr, float32, float64, bool:
				sb.WriteString(fmt.Sprintf(spec, iv))
				continue
			case string:
				if verb == 'x' || verb == 'X' || verb == 'q' {
					sb.WriteString(fmt.Sprintf(spec, iv))
					continue
				}
			case []value:
				if verb == 'x' || verb == 'X' {
					bs := make([]byte, 0, len(iv))
					okb := true
					for _, b := range iv {
						bb, ok := b.(uint8)
						if !ok {
							okb = false
							break
						}
						bs = append(bs, bb)
					}
					if okb {
						sb.WriteString(fmt.Sprintf(spec, bs))
						continue
					}
				}
			}
			sb.WriteString(fmtValue(fr, a))
		case 's', 'v', 'w', 'T':
			if verb == 'T' {
				if ia, ok := a.(iface); ok {
					sb.WriteString(ia.t.String())
					continue
				}
			}
			sb.WriteString(fmtValue(fr, a))
		default:
			sb.WriteString(fmtValue(fr, a))
		}
	}
	return sb.String()
}

var _ = os.Stderr
