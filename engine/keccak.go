package main

// Keccak-256 (legacy padding 0x01, as used by Ethereum) for concrete inputs, and a
// collision-free uninterpreted model for symbolic inputs.

import (
	"encoding/binary"
	"fmt"
	"go/types"
	"math/bits"
	"strings"
)

var keccakRC = [24]uint64{
	0x0000000000000001, 0x0000000000008082, 0x800000000000808A, 0x8000000080008000,
	0x000000000000808B, 0x0000000080000001, 0x8000000080008081, 0x8000000000008009,
	0x000000000000008A, 0x0000000000000088, 0x0000000080008009, 0x000000008000000A,
	0x000000008000808B, 0x800000000000008B, 0x8000000000008089, 0x8000000000008003,
	0x8000000000008002, 0x8000000000000080, 0x000000000000800A, 0x800000008000000A,
	0x8000000080008081, 0x8000000000008080, 0x0000000080000001, 0x8000000080008008,
}

var keccakRot = [24]int{1, 3, 6, 10, 15, 21, 28, 36, 45, 55, 2, 14, 27, 41, 56, 8, 25, 43, 62, 18, 39, 61, 20, 44}
var keccakPil = [24]int{10, 7, 11, 17, 18, 3, 5, 16, 8, 21, 24, 4, 15, 23, 19, 13, 12, 2, 20, 14, 22, 9, 6, 1}

func keccakF(st *[25]uint64) {
	var bc [5]uint64
	for r := 0; r < 24; r++ {
		for i := 0; i < 5; i++ {
			bc[i] = st[i] ^ st[i+5] ^ st[i+10] ^ st[i+15] ^ st[i+20]
		}
		for i := 0; i < 5; i++ {
			t := bc[(i+4)%5] ^ bits.RotateLeft64(bc[(i+1)%5], 1)
			for j := 0; j < 25; j += 5 {
				st[j+i] ^= t
			}
		}
		t := st[1]
		for i := 0; i < 24; i++ {
			j := keccakPil[i]
			b := st[j]
			st[j] = bits.RotateLeft64(t, keccakRot[i])
			t = b
		}
		for j := 0; j < 25; j += 5 {
			for i := 0; i < 5; i++ {
				bc[i] = st[j+i]
			}
			for i := 0; i < 5; i++ {
				st[j+i] ^= (^bc[(i+1)%5]) & bc[(i+2)%5]
			}
		}
		st[0] ^= keccakRC[r]
	}
}

func keccak256(data []byte) [32]byte {
	const rate = 136
	var st [25]uint64
	buf := append([]byte(nil), data...)
	buf = append(buf, 0x01)
	for len(buf)%rate != 0 {
		buf = append(buf, 0)
	}
	buf[len(buf)-1] |= 0x80
	for off := 0; off < len(buf); off += rate {
		for i := 0; i < rate/8; i++ {
			st[i] ^= binary.LittleEndian.Uint64(buf[off+8*i:])
		}
		keccakF(&st)
	}
	var out [32]byte
	for i := 0; i < 4; i++ {
		binary.LittleEndian.PutUint64(out[8*i:], st[i])
	}
	return out
}

// keccakUF models the hash of a (partly) symbolic byte string: 32 fresh bytes,
// functional and collision-free w.r.t. every other symbolic application on this path of the same length.
// Collisions with hashes of concrete inputs are excluded as well.
type keccakApp struct {
	in  []string
	out []string
}

func (i *interpreter) keccakSym(fr *frame, in []value) array {
	st := i.needState("keccak of symbolic bytes")
	key := "keccak.apps"
	apps, _ := i.extState[key].([]keccakApp)
	terms := make([]string, len(in))
	for k, b := range in {
		terms[k] = termOf(b)
	}
	for _, a := range apps {
		if len(a.in) == len(terms) && strings.Join(a.in, ",") == strings.Join(terms, ",") {
			out := make(array, 32)
			for k := range out {
				out[k] = sym{a.out[k], types.Uint8}
			}
			return out
		}
	}
	out := make(array, 32)
	outT := make([]string, 32)
	for k := range out {
		t := st.fresh(fmt.Sprintf("keccak%d_%d", len(apps), k), "Int")
		st.addPC(rangeConstraint(types.Uint8, t))
		out[k] = sym{t, types.Uint8}
		outT[k] = t
	}
	for _, a := range apps {
		if len(a.in) != len(terms) {
			// different lengths: outputs differ (collision-free)
			var ne []string
			for k := range outT {
				ne = append(ne, "(not (= "+outT[k]+" "+a.out[k]+"))")
			}
			st.addPC(mkOr(ne...))
			continue
		}
		var eqIn, eqOut []string
		for k := range terms {
			eqIn = append(eqIn, "(= "+terms[k]+" "+a.in[k]+")")
		}
		for k := range outT {
			eqOut = append(eqOut, "(= "+outT[k]+" "+a.out[k]+")")
		}
		st.addPC("(= " + mkAnd(eqIn...) + " " + mkAnd(eqOut...) + ")")
	}
	apps = append(apps, keccakApp{terms, outT})
	i.extState[key] = apps
	return out
}

func init() {
	e := externals
	hashOf := func(fr *frame, parts []value) array {
		var all []value
		for _, p := range parts {
			bs, _ := p.([]value)
			all = append(all, bs...)
		}
		if raw, ok := bytesAllConcrete(all); ok {
			h := keccak256(raw)
			out := make(array, 32)
			for k := range h {
				out[k] = h[k]
			}
			return out
		}
		return fr.i.keccakSym(fr, all)
	}
	const c = "github.com/ethereum/go-ethereum/crypto."
	e[c+"Keccak256Hash"] = func(fr *frame, args []value) value {
		parts, _ := args[0].([]value)
		return hashOf(fr, parts)
	}
	// CreateAddress(b, nonce) = keccak(rlp([b, nonce]))[12:]  (RLP is reflection-driven in go-ethereum)
	e[c+"CreateAddress"] = func(fr *frame, args []value) value {
		addr := []value(args[0].(array))
		var h array
		raw, ok := bytesAllConcrete(addr)
		if n, okn := args[1].(uint64); ok && okn {
			var nb []byte
			switch {
			case n == 0:
				nb = []byte{0x80}
			case n < 0x80:
				nb = []byte{byte(n)}
			default:
				var be []byte
				for x := n; x > 0; x >>= 8 {
					be = append([]byte{byte(x)}, be...)
				}
				nb = append([]byte{0x80 + byte(len(be))}, be...)
			}
			payload := append(append([]byte{0x80 + 20}, raw...), nb...)
			enc := append([]byte{0xc0 + byte(len(payload))}, payload...)
			hh := keccak256(enc)
			h = make(array, 32)
			for k := range hh {
				h[k] = hh[k]
			}
		} else {
			in := append(append([]value{}, addr...), args[1])
			h = fr.i.keccakSym(fr, in)
		}
		out := make(array, 20)
		copy(out, h[12:])
		return out
	}
	e[c+"Keccak256"] = func(fr *frame, args []value) value {
		parts, _ := args[0].([]value)
		h := hashOf(fr, parts)
		return []value(h)
	}
}
