package main

// Inverse-pair codec stub: verif.Encode / verif.Decode / verif.DecodeInterface.

import (
	"bytes"
	"fmt"
	"go/types"
	"hash/fnv"
	"math/big"
)

type encEntry struct {
	t types.Type
	v value
}

func deepCopy(v value, seen map[*value]*value) value {
	switch v := v.(type) {
	case structure:
		a := make(structure, len(v))
		for i := range v {
			a[i] = deepCopy(v[i], seen)
		}
		return a
	case array:
		a := make(array, len(v))
		for i := range v {
			a[i] = deepCopy(v[i], seen)
		}
		return a
	case []value:
		if v == nil {
			return v
		}
		a := make([]value, len(v))
		for i := range v {
			a[i] = deepCopy(v[i], seen)
		}
		return a
	case *value:
		if v == nil {
			return v
		}
		if c, ok := seen[v]; ok {
			return c
		}
		c := new(value)
		seen[v] = c
		*c = deepCopy(*v, seen)
		return c
	case iface:
		return iface{t: v.t, v: deepCopy(v.v, seen)}
	case *smap:
		if v == nil {
			return v
		}
		m := &smap{keyType: v.keyType, cidx: map[string]*ment{}}
		for _, e := range v.live() {
			ne := &ment{key: deepCopy(e.key, seen), val: deepCopy(e.val, seen), ck: e.ck}
			m.ents = append(m.ents, ne)
			m.nlive++
			if ne.ck != "" {
				m.cidx[ne.ck] = ne
			} else {
				m.nsym++
			}
		}
		return m
	}
	return v
}

func renderDeep(buf *bytes.Buffer, v value, depth int) {
	if depth > 40 {
		buf.WriteString("<deep>")
		return
	}
	switch v := v.(type) {
	case structure:
		buf.WriteString("{")
		for _, e := range v {
			renderDeep(buf, e, depth+1)
			buf.WriteString(";")
		}
		buf.WriteString("}")
	case array:
		buf.WriteString("[")
		for _, e := range v {
			renderDeep(buf, e, depth+1)
			buf.WriteString(",")
		}
		buf.WriteString("]")
	case []value:
		if v == nil {
			buf.WriteString("nilslice")
			return
		}
		buf.WriteString("s[")
		for _, e := range v {
			renderDeep(buf, e, depth+1)
			buf.WriteString(",")
		}
		buf.WriteString("]")
	case *value:
		if v == nil {
			buf.WriteString("nilptr")
			return
		}
		buf.WriteString("&")
		renderDeep(buf, *v, depth+1)
	case iface:
		if v.t == nil {
			buf.WriteString("niliface")
			return
		}
		buf.WriteString("(" + v.t.String() + ")")
		renderDeep(buf, v.v, depth+1)
	case *smap:
		buf.WriteString("map{")
		for _, e := range v.live() {
			renderDeep(buf, e.key, depth+1)
			buf.WriteString(":")
			renderDeep(buf, e.val, depth+1)
			buf.WriteString(",")
		}
		buf.WriteString("}")
	case sym:
		buf.WriteString("$" + v.t)
	case *big.Int:
		buf.WriteString("big" + v.String())
	case string:
		fmt.Fprintf(buf, "%q", v)
	default:
		fmt.Fprintf(buf, "%T:%v", v, v)
	}
}

func init() {
	e := externals
	e[verifPkg+".Encode"] = func(fr *frame, args []value) value {
		x := args[0].(iface)
		if x.t == nil {
			panic(targetPanic{v: fr.i.runtimeError("verif.Encode(nil)")})
		}
		c := deepCopy(x.v, map[*value]*value{})
		var buf bytes.Buffer
		buf.WriteString(x.t.String() + "|")
		renderDeep(&buf, c, 0)
		h := fnv.New64a()
		h.Write(buf.Bytes())
		handle := fmt.Sprintf("\xfeENC%016x", h.Sum64())
		fr.i.extState["enc:"+handle] = encEntry{x.t, c}
		return bytesToValue([]byte(handle))
	}
	lookup := func(fr *frame, bz value) (encEntry, bool) {
		bs, ok := bz.([]value)
		if !ok {
			return encEntry{}, false
		}
		raw := make([]byte, len(bs))
		for k, b := range bs {
			bb, ok := b.(uint8)
			if !ok {
				return encEntry{}, false
			}
			raw[k] = bb
		}
		en, ok := fr.i.extState["enc:"+string(raw)]
		if !ok {
			return encEntry{}, false
		}
		return en.(encEntry), true
	}
	e[verifPkg+".Decode"] = func(fr *frame, args []value) value {
		en, ok := lookup(fr, args[0])
		if !ok {
			return false
		}
		ptr := args[1].(iface)
		if ptr.t == nil || !types.Identical(ptr.t, en.t) {
			return false
		}
		dst := fr.ptr(ptr.v)
		src := deepCopy(en.v, map[*value]*value{}).(*value)
		T := mustDeref(ptr.t)
		store(T, dst, load(T, src))
		return true
	}
	// proto.Clone (reflection-driven in gogoproto) = deep copy of the message
	e["github.com/cosmos/gogoproto/proto.Clone"] = func(fr *frame, args []value) value {
		x := args[0].(iface)
		if x.t == nil {
			return x
		}
		return iface{t: x.t, v: deepCopy(x.v, map[*value]*value{})}
	}
	e[verifPkg+".EncodeAny"] = e[verifPkg+".Encode"]
	e[verifPkg+".DecodeAny"] = e[verifPkg+".Decode"]
	e[verifPkg+".DecodeInterface"] = func(fr *frame, args []value) value {
		en, ok := lookup(fr, args[0])
		if !ok {
			return false
		}
		ptr := args[1].(iface)
		dst := fr.ptr(ptr.v)
		*dst = iface{t: en.t, v: deepCopy(en.v, map[*value]*value{})}
		return true
	}
}
