package main

// Persistent SMT solver session (z3 -in) with push/pop.

import (
	"bufio"
	"fmt"
	"io"
	"os"
	"os/exec"
	"strings"
	"sync/atomic"
	"time"
)

type satResult int

const (
	resSat satResult = iota
	resUnsat
	resUnknown
)

func (r satResult) String() string {
	switch r {
	case resSat:
		return "sat"
	case resUnsat:
		return "unsat"
	}
	return "unknown"
}

type solver struct {
	cmd     *exec.Cmd
	in      io.WriteCloser
	out     *bufio.Reader
	log     io.Writer // optional transcript
	timeout int       // ms per query
	depth   int

	nSat, nUnsat, nUnknown int64
	solverNs               int64
	errors                 []string
}

var totalSolverNs int64

func newSolver(timeoutMs int, transcript io.Writer) (*solver, error) {
	bin := os.Getenv("GOSYM_SOLVER")
	if bin == "" {
		bin = "z3"
	}
	cmd := exec.Command(bin, "-in", "-smt2")
	in, err := cmd.StdinPipe()
	if err != nil {
		return nil, err
	}
	outp, err := cmd.StdoutPipe()
	if err != nil {
		return nil, err
	}
	cmd.Stderr = os.Stderr
	if err := cmd.Start(); err != nil {
		return nil, err
	}
	s := &solver{cmd: cmd, in: in, out: bufio.NewReaderSize(outp, 1<<16), log: transcript, timeout: timeoutMs}
	s.send(fmt.Sprintf("(set-option :timeout %d)", timeoutMs))
	s.send("(set-option :model.completion true)")
	return s, nil
}

func (s *solver) send(line string) {
	if s.log != nil {
		fmt.Fprintln(s.log, line)
	}
	io.WriteString(s.in, line)
	io.WriteString(s.in, "\n")
}

func (s *solver) close() {
	if s == nil || s.cmd == nil {
		return
	}
	s.in.Close()
	done := make(chan struct{})
	go func() { s.cmd.Wait(); close(done) }()
	select {
	case <-done:
	case <-time.After(2 * time.Second):
		s.cmd.Process.Kill()
	}
}

func (s *solver) push() { s.send("(push 1)"); s.depth++ }
func (s *solver) pop()  { s.send("(pop 1)"); s.depth-- }
func (s *solver) popTo(d int) {
	for s.depth > d {
		s.pop()
	}
}

func (s *solver) declare(name, sort string) {
	s.send("(declare-const " + name + " " + sort + ")")
}

func (s *solver) assert(t string) { s.send("(assert " + t + ")") }

// readAnswer reads one answer: a line (sat/unsat/unknown/(error ...)) possibly
// spanning several lines when parenthesised.
func (s *solver) readSexp() (string, error) {
	var sb strings.Builder
	depth := 0
	started := false
	for {
		line, err := s.out.ReadString('\n')
		if err != nil {
			return sb.String(), err
		}
		if s.log != nil {
			fmt.Fprint(s.log, "; << ", line)
		}
		for i := 0; i < len(line); i++ {
			switch line[i] {
			case '(':
				depth++
				started = true
			case ')':
				depth--
			case '"':
				// skip string literal
				j := i + 1
				for j < len(line) && line[j] != '"' {
					j++
				}
				i = j
				started = true
			case ' ', '\n', '\t', '\r':
			default:
				started = true
			}
		}
		sb.WriteString(line)
		if started && depth <= 0 {
			return strings.TrimSpace(sb.String()), nil
		}
	}
}

// check returns the satisfiability of the current assertions plus extra (may be "").
// If wantModel != nil and the result is sat, the values of the listed terms are
// returned (in order).
func (s *solver) check(extra string, wantModel []string) (satResult, []string) {
	t0 := time.Now()
	defer func() {
		d := int64(time.Since(t0))
		s.solverNs += d
		atomic.AddInt64(&totalSolverNs, d)
	}()
	s.send("(push 1)")
	if extra != "" {
		s.send("(assert " + extra + ")")
	}
	s.send("(check-sat)")
	ans, err := s.readSexp()
	if err != nil {
		s.errors = append(s.errors, "solver died: "+err.Error())
		s.nUnknown++
		return resUnknown, nil
	}
	var res satResult
	switch {
	case ans == "sat":
		res = resSat
		s.nSat++
	case ans == "unsat":
		res = resUnsat
		s.nUnsat++
	case ans == "unknown" || ans == "timeout":
		res = resUnknown
		s.nUnknown++
	default:
		// (error ...) or anything unexpected => inconclusive; drain until we resync
		s.errors = append(s.errors, ans)
		res = resUnknown
		s.nUnknown++
		// An error may be followed by the check-sat answer; resync with an echo marker.
		s.send("(echo \"@@sync\")")
		for {
			l, err := s.readSexp()
			if err != nil || strings.Contains(l, "@@sync") {
				break
			}
		}
	}
	var vals []string
	if res == resSat && len(wantModel) > 0 {
		for _, t := range wantModel {
			s.send("(get-value (" + t + "))")
			a, err := s.readSexp()
			if err != nil {
				break
			}
			vals = append(vals, parseGetValue(a))
		}
	}
	s.send("(pop 1)")
	return res, vals
}

// parseGetValue extracts v from "((term v))".
func parseGetValue(a string) string {
	a = strings.TrimSpace(a)
	if !strings.HasPrefix(a, "((") {
		return a
	}
	a = a[2 : len(a)-2]
	// skip the term (balanced or atom)
	i := 0
	if a[0] == '(' {
		d := 0
		for ; i < len(a); i++ {
			if a[i] == '(' {
				d++
			} else if a[i] == ')' {
				d--
				if d == 0 {
					i++
					break
				}
			}
		}
	} else {
		for i < len(a) && a[i] != ' ' {
			i++
		}
	}
	v := strings.TrimSpace(a[i:])
	// normalise (- 5) -> -5
	if strings.HasPrefix(v, "(- ") && strings.HasSuffix(v, ")") {
		v = "-" + strings.TrimSpace(v[3:len(v)-1])
	}
	return v
}
