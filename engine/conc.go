package main

// Bounded concurrency: goroutines, channels, select and sync primitives under a deterministic scheduler whose
// decisions are path choices (explored exhaustively like every other choice, up to a preemption bound).
//
// Every target goroutine runs on its own Go goroutine, but only the holder of the baton executes. Scheduling
// points are the synchronisation operations (go, channel send / receive / close, select, Mutex / RWMutex /
// WaitGroup operations, atomic read-modify-write, goroutine exit, verif.Quiesce): code between two of them runs
// atomically, which is sound for data-race-free executions (data races themselves are not detected).
// Delay-bounded scheduling (Emmi, Qadeer, Rakamaric 2011): the default scheduler is deterministic - the running
// goroutine continues while it can, and when it blocks or ends the next enabled goroutine in round-robin order
// runs; at every scheduling point the scheduler may instead skip ahead to the k-th next enabled goroutine, which
// costs k delays, and a path may spend at most maxPre delays. Every schedule within the delay bound is a path.
// An uncaught panic in any goroutine, and a state in which the main goroutine is blocked and nothing is enabled
// (deadlock), are reported as unobserved panics of the harness.

import (
	"fmt"
	"go/token"
	"go/types"
	"sync"

	"golang.org/x/tools/go/ssa"
)

// gkill unwinds a parked goroutine at the end of a path (engine-level: target defers do not run).
type gkill struct{}

type gthread struct {
	id      int
	wake    chan struct{}
	exited  chan struct{}
	done    bool
	blocked func() bool // nil: runnable; otherwise: "can proceed now"
	quiesce bool        // blocked in verif.Quiesce: enabled iff nothing else is
	what    string
	// rendezvous bookkeeping for unbuffered channels
	waitCh   *schan
	waitSend bool
	sendVal  value
	handed   bool  // a partner completed the operation for us
	recvVal  value // value handed over by a sender
	recvOK   bool
	selCases []selCase // when blocked in a select
	selIndex int
}

type scheduler struct {
	in      *interpreter
	threads []*gthread
	cur     *gthread
	maxPre  int
	pre     int
	killed  bool
	abort   interface{}
	wg      sync.WaitGroup
	mutexes map[*value]*mstate
	wgs     map[*value]int
	epoch   int // bumped by every change of synchronisation state (wakes goroutines polling with time.Sleep)
}

type mstate struct {
	writer  bool
	readers int
}

// schan is a channel of the target program.
type schan struct {
	cap    int
	buf    []value
	closed bool
	elem   types.Type
}

func (i *interpreter) schedOrNil() *scheduler { return i.sched }

func (i *interpreter) needSched(what string) *scheduler {
	if i.sched == nil {
		panic(engineAbort{what + " outside concurrency mode (the harness must call verif.Schedule first)"})
	}
	return i.sched
}

func newScheduler(in *interpreter, maxPre int) *scheduler {
	s := &scheduler{in: in, maxPre: maxPre, mutexes: map[*value]*mstate{}, wgs: map[*value]int{}}
	main := &gthread{id: 0, wake: make(chan struct{}, 1), what: "main"}
	s.threads = []*gthread{main}
	s.cur = main
	return s
}

func (s *scheduler) enabled(t *gthread) bool {
	if t.done {
		return false
	}
	if t.quiesce {
		for _, o := range s.threads {
			if o != t && !o.quiesce && s.enabled(o) {
				return false
			}
		}
		return true
	}
	return t.blocked == nil || t.handed || t.blocked()
}

// candidates: the enabled goroutines other than `except`, in round-robin order starting after it.
func (s *scheduler) candidates(except *gthread) []*gthread {
	var out []*gthread
	n := len(s.threads)
	start := 0
	if except != nil {
		start = except.id + 1
	}
	for k := 0; k < n; k++ {
		t := s.threads[(start+k)%n]
		if t != except && s.enabled(t) {
			out = append(out, t)
		}
	}
	return out
}

// pick chooses among the candidates under the delay bound: candidate 0 is what the deterministic round-robin,
// non-preemptive scheduler would run next and is free; choosing candidate k costs k delays.
func (s *scheduler) pick(fr *frame, n int) int {
	left := s.maxPre - s.pre
	if left < 0 {
		left = 0
	}
	if n-1 < left {
		left = n - 1
	}
	if left == 0 {
		return 0
	}
	k := s.in.choose(fr, left+1, "schedule")
	s.pre += k
	return k
}

// park hands the baton to `to` and waits until this goroutine is scheduled again.
func (s *scheduler) park(t, to *gthread) {
	s.cur = to
	to.wake <- struct{}{}
	<-t.wake
	s.resumeChecks(t)
}

func (s *scheduler) resumeChecks(t *gthread) {
	if s.killed {
		panic(gkill{})
	}
	if s.abort != nil && t.id == 0 {
		r := s.abort
		s.abort = nil
		panic(r)
	}
}

// point is a scheduling point of a goroutine that can continue: it may be preempted.
func (s *scheduler) point(fr *frame) {
	t := s.cur
	if s.pre >= s.maxPre {
		return
	}
	c := s.candidates(t)
	if len(c) == 0 {
		return
	}
	// option 0: continue (free); option k: run the k-th other goroutine instead (k delays)
	k := s.pick(fr, 1+len(c))
	if k == 0 {
		return
	}
	s.park(t, c[k-1])
}

// wait blocks the running goroutine until can() holds (or a partner hands the operation over).
func (s *scheduler) wait(fr *frame, can func() bool, what string) {
	t := s.cur
	for !(t.handed || can()) {
		t.blocked, t.what = can, what
		s.yieldBlocked(fr, t)
		t.blocked = nil
	}
}

func (s *scheduler) yieldBlocked(fr *frame, t *gthread) {
	c := s.candidates(t)
	if len(c) == 0 {
		s.deadlock(fr)
	}
	s.park(t, c[s.pick(fr, len(c))])
}

func (s *scheduler) deadlock(fr *frame) {
	msg := "all goroutines are asleep - deadlock!"
	for _, t := range s.threads {
		if !t.done {
			msg += fmt.Sprintf(" [g%d: %s]", t.id, t.what)
		}
	}
	panic(targetPanic{v: s.in.runtimeError(msg)})
}

// spawn starts a target goroutine.
func (s *scheduler) spawn(fr *frame, fn value, args []value, pos token.Pos) {
	if len(s.threads) >= 16 {
		panic(pathEnd{"goroutine bound (16) exhausted", true})
	}
	t := &gthread{id: len(s.threads), wake: make(chan struct{}, 1), exited: make(chan struct{}), what: "started"}
	s.threads = append(s.threads, t)
	s.wg.Add(1)
	in := s.in
	go func() {
		defer s.wg.Done()
		defer close(t.exited)
		<-t.wake
		defer func() {
			r := recover()
			t.done = true
			if _, isKill := r.(gkill); isKill || s.killed {
				return
			}
			if r != nil && s.abort == nil {
				s.abort = r
			}
			s.finish(t)
		}()
		if s.killed {
			panic(gkill{})
		}
		call(in, nil, pos, fn, args)
	}()
	s.point(fr)
}

// finish hands the baton on when a goroutine ends (normally or by an uncaught panic).
func (s *scheduler) finish(t *gthread) {
	s.epoch++
	main := s.threads[0]
	if s.abort != nil {
		s.cur = main
		main.wake <- struct{}{}
		return
	}
	c := s.candidates(t)
	if len(c) == 0 {
		// everything else is blocked: if main is among the blocked, this is a deadlock
		func() {
			defer func() {
				if r := recover(); r != nil {
					s.abort = r
				}
			}()
			s.deadlock(nil)
		}()
		s.cur = main
		main.wake <- struct{}{}
		return
	}
	k := 0
	if len(c) > 1 {
		func() {
			defer func() {
				if r := recover(); r != nil {
					s.abort = r
				}
			}()
			k = s.pick(nil, len(c))
		}()
		if s.abort != nil {
			s.cur = main
			main.wake <- struct{}{}
			return
		}
	}
	s.cur = c[k]
	c[k].wake <- struct{}{}
}

// killAll ends every parked goroutine of the path (called by the main goroutine when the path is over).
func (s *scheduler) killAll() {
	s.killed = true
	for _, t := range s.threads[1:] {
		if !t.done {
			select {
			case t.wake <- struct{}{}:
			default:
			}
		}
		<-t.exited // one at a time: unwinding goroutines touch interpreter bookkeeping
	}
	s.wg.Wait()
}

// quiesce blocks the main goroutine until no other goroutine can run.
func (s *scheduler) quiesce(fr *frame) {
	t := s.cur
	t.quiesce = true
	for {
		c := s.candidates(t)
		if len(c) == 0 {
			break
		}
		t.what = "quiesce"
		s.park(t, c[s.pick(fr, len(c))])
	}
	t.quiesce = false
}

// ---- channels ------------------------------------------------------------------------------------------------

func (s *scheduler) receiverWaiting(ch *schan, self *gthread) *gthread {
	for _, t := range s.threads {
		if t.done || t.handed || t == self {
			continue
		}
		if t.waitCh == ch && !t.waitSend && t.blocked != nil {
			return t
		}
		for k, c := range t.selCases {
			if c.ch == ch && !c.send && t.blocked != nil {
				_ = k
				return t
			}
		}
	}
	return nil
}

func (s *scheduler) senderWaiting(ch *schan, self *gthread) *gthread {
	for _, t := range s.threads {
		if t.done || t.handed || t == self {
			continue
		}
		if t.waitCh == ch && t.waitSend && t.blocked != nil {
			return t
		}
		for _, c := range t.selCases {
			if c.ch == ch && c.send && t.blocked != nil {
				return t
			}
		}
	}
	return nil
}

func (s *scheduler) canSend(ch *schan, self *gthread) bool {
	if ch == nil {
		return false
	}
	return ch.closed || len(ch.buf) < ch.cap || s.receiverWaiting(ch, self) != nil
}

func (s *scheduler) canRecv(ch *schan, self *gthread) bool {
	if ch == nil {
		return false
	}
	return len(ch.buf) > 0 || ch.closed || s.senderWaiting(ch, self) != nil
}

// doSend performs a send that canSend allows.
func (s *scheduler) doSend(ch *schan, v value) {
	s.epoch++
	if ch.closed {
		panic(targetPanic{v: s.in.runtimeError("send on closed channel")})
	}
	if r := s.receiverWaiting(ch, s.cur); r != nil && len(ch.buf) == 0 {
		s.handToReceiver(r, ch, v, true)
		return
	}
	ch.buf = append(ch.buf, v)
}

func (s *scheduler) handToReceiver(r *gthread, ch *schan, v value, ok bool) {
	r.handed, r.recvVal, r.recvOK = true, v, ok
	if r.selCases != nil {
		for k, c := range r.selCases {
			if c.ch == ch && !c.send {
				r.selIndex = k
				break
			}
		}
	}
}

// doRecv performs a receive that canRecv allows.
func (s *scheduler) doRecv(ch *schan) (value, bool) {
	s.epoch++
	if len(ch.buf) > 0 {
		v := ch.buf[0]
		ch.buf = ch.buf[1:]
		// a blocked sender of a full buffered channel can now proceed by itself
		return v, true
	}
	if snd := s.senderWaiting(ch, s.cur); snd != nil {
		var v value
		if snd.selCases != nil {
			for k, c := range snd.selCases {
				if c.ch == ch && c.send {
					v = c.val
					snd.selIndex = k
					break
				}
			}
		} else {
			v = snd.sendVal
		}
		snd.handed = true
		return v, true
	}
	if ch.closed {
		return zero(ch.elem), false
	}
	panic(engineAbort{"internal: doRecv on a channel that is not ready"})
}

func (fr *frame) chanSend(chv, v value) {
	ch, _ := chv.(*schan)
	s := fr.i.needSched("channel send")
	s.point(fr)
	t := s.cur
	if ch == nil {
		s.wait(fr, func() bool { return false }, "send on nil channel")
	}
	t.waitCh, t.waitSend, t.sendVal, t.handed = ch, true, v, false
	s.epoch++ // a sender is now waiting: visible to a polling select
	s.wait(fr, func() bool { return s.canSend(ch, t) }, "chan send")
	handed := t.handed
	t.waitCh, t.handed, t.sendVal = nil, false, nil
	if handed {
		return // a receiver took the value
	}
	s.doSend(ch, v)
}

func (fr *frame) chanRecv(chv value, commaOk bool) value {
	ch, _ := chv.(*schan)
	s := fr.i.needSched("channel receive")
	s.point(fr)
	t := s.cur
	if ch == nil {
		s.wait(fr, func() bool { return false }, "receive from nil channel")
	}
	t.waitCh, t.waitSend, t.handed = ch, false, false
	s.epoch++ // a receiver is now waiting
	s.wait(fr, func() bool { return s.canRecv(ch, t) }, "chan receive")
	var v value
	var ok bool
	if t.handed {
		v, ok = t.recvVal, t.recvOK
	} else {
		v, ok = s.doRecv(ch)
	}
	t.waitCh, t.handed, t.recvVal = nil, false, nil
	if commaOk {
		return tuple{v, ok}
	}
	return v
}

func (fr *frame) chanClose(chv value) {
	ch, _ := chv.(*schan)
	if ch == nil {
		panic(targetPanic{v: fr.i.runtimeError("close of nil channel")})
	}
	if s := fr.i.sched; s != nil {
		s.point(fr)
	}
	if ch.closed {
		panic(targetPanic{v: fr.i.runtimeError("close of closed channel")})
	}
	ch.closed = true
	if s := fr.i.sched; s != nil {
		s.epoch++
	}
	if s := fr.i.sched; s != nil {
		// blocked senders panic when they resume (doSend); blocked receivers see the closed channel
		_ = s
	}
}

type selCase struct {
	ch   *schan
	send bool
	val  value
}

// selectStmt implements ssa.Select: result tuple (index, recvOk, recv_0, ..., recv_{n-1}).
func (fr *frame) selectStmt(instr *ssa.Select) value {
	s := fr.i.needSched("select statement")
	s.point(fr)
	t := s.cur
	var cases []selCase
	for _, st := range instr.States {
		c := selCase{send: st.Dir == types.SendOnly}
		c.ch, _ = fr.get(st.Chan).(*schan)
		if c.send {
			c.val = fr.get(st.Send)
		}
		cases = append(cases, c)
	}
	ready := func() []int {
		var r []int
		for k, c := range cases {
			if c.send && s.canSend(c.ch, t) || !c.send && s.canRecv(c.ch, t) {
				r = append(r, k)
			}
		}
		return r
	}
	result := func(idx int, v value, ok bool) value {
		out := tuple{idx, ok}
		for k, st := range instr.States {
			if st.Dir == types.RecvOnly {
				if k == idx {
					out = append(out, v)
				} else {
					out = append(out, zero(st.Chan.Type().Underlying().(*types.Chan).Elem()))
				}
			}
		}
		return out
	}
	r := ready()
	if len(r) == 0 {
		if !instr.Blocking {
			return result(-1, nil, false)
		}
		t.selCases, t.handed, t.selIndex = cases, false, -1
		s.epoch++
		s.wait(fr, func() bool { return len(ready()) > 0 }, "select")
		handed := t.handed
		idx := t.selIndex
		t.selCases = nil
		if handed {
			t.handed = false
			if cases[idx].send {
				return result(idx, nil, false)
			}
			v, ok := t.recvVal, t.recvOK
			t.recvVal = nil
			return result(idx, v, ok)
		}
		r = ready()
	}
	k := 0
	if len(r) > 1 {
		k = fr.i.choose(fr, len(r), "select case")
	}
	idx := r[k]
	c := cases[idx]
	if c.send {
		s.doSend(c.ch, c.val)
		return result(idx, nil, false)
	}
	v, ok := s.doRecv(c.ch)
	return result(idx, v, ok)
}

// ---- sync primitives -----------------------------------------------------------------------------------------

func (s *scheduler) mutex(p *value) *mstate {
	m := s.mutexes[p]
	if m == nil {
		m = &mstate{}
		s.mutexes[p] = m
	}
	return m
}

func registerConcurrency(e map[string]externalFn) {
	seq := func(f func(s *scheduler, fr *frame, args []value) value) externalFn {
		return func(fr *frame, args []value) value {
			s := fr.i.sched
			if s == nil {
				return nil // sequential mode: locks are no-ops
			}
			return f(s, fr, args)
		}
	}
	lock := func(s *scheduler, fr *frame, args []value) value {
		m := s.mutex(args[0].(*value))
		s.point(fr)
		s.wait(fr, func() bool { return !m.writer && m.readers == 0 }, "Mutex.Lock")
		m.writer = true
		return nil
	}
	unlock := func(s *scheduler, fr *frame, args []value) value {
		m := s.mutex(args[0].(*value))
		if !m.writer {
			panic(targetPanic{v: fr.i.runtimeError("sync: unlock of unlocked mutex")})
		}
		m.writer = false
		s.epoch++
		s.point(fr)
		return nil
	}
	e["(*sync.Mutex).Lock"] = seq(lock)
	e["(*sync.Mutex).Unlock"] = seq(unlock)
	e["(*sync.RWMutex).Lock"] = seq(lock)
	e["(*sync.RWMutex).Unlock"] = seq(unlock)
	e["(*sync.RWMutex).RLock"] = seq(func(s *scheduler, fr *frame, args []value) value {
		m := s.mutex(args[0].(*value))
		s.point(fr)
		s.wait(fr, func() bool { return !m.writer }, "RWMutex.RLock")
		m.readers++
		return nil
	})
	e["(*sync.RWMutex).RUnlock"] = seq(func(s *scheduler, fr *frame, args []value) value {
		m := s.mutex(args[0].(*value))
		if m.readers == 0 {
			panic(targetPanic{v: fr.i.runtimeError("sync: RUnlock of unlocked RWMutex")})
		}
		m.readers--
		s.epoch++
		s.point(fr)
		return nil
	})
	e["(*sync.Mutex).TryLock"] = func(fr *frame, args []value) value {
		s := fr.i.sched
		if s == nil {
			return true
		}
		m := s.mutex(args[0].(*value))
		s.point(fr)
		if m.writer || m.readers > 0 {
			return false
		}
		m.writer = true
		return true
	}
	e["(*sync.WaitGroup).Add"] = seq(func(s *scheduler, fr *frame, args []value) value {
		p := args[0].(*value)
		s.wgs[p] += int(asInt64(args[1]))
		if s.wgs[p] < 0 {
			panic(targetPanic{v: fr.i.runtimeError("sync: negative WaitGroup counter")})
		}
		s.point(fr)
		return nil
	})
	e["(*sync.WaitGroup).Done"] = seq(func(s *scheduler, fr *frame, args []value) value {
		p := args[0].(*value)
		s.wgs[p]--
		s.epoch++
		if s.wgs[p] < 0 {
			panic(targetPanic{v: fr.i.runtimeError("sync: negative WaitGroup counter")})
		}
		s.point(fr)
		return nil
	})
	e["(*sync.WaitGroup).Wait"] = seq(func(s *scheduler, fr *frame, args []value) value {
		p := args[0].(*value)
		s.point(fr)
		s.wait(fr, func() bool { return s.wgs[p] == 0 }, "WaitGroup.Wait")
		return nil
	})
	// go-ethereum rpc.NewID: random subscription identifiers -> distinct fresh identifiers
	e["github.com/ethereum/go-ethereum/rpc.NewID"] = func(fr *frame, args []value) value {
		n, _ := fr.i.extState["rpc.NewID"].(int)
		fr.i.extState["rpc.NewID"] = n + 1
		return fmt.Sprintf("0x%032x", n+1)
	}
	// the CometBFT websocket client is the environment: subscribing / unsubscribing succeeds
	e["(*github.com/cometbft/cometbft/rpc/jsonrpc/client.WSClient).Subscribe"] = func(fr *frame, args []value) value { return iface{} }
	e["(*github.com/cometbft/cometbft/rpc/jsonrpc/client.WSClient).Unsubscribe"] = func(fr *frame, args []value) value { return iface{} }
	// timers: time.Sleep is a scheduling point; a timer's channel never fires (time-outs are not taken)
	neverFires := func(fr *frame) *schan {
		return &schan{cap: 1, elem: fr.i.prog.ImportedPackage("time").Type("Time").Type()}
	}
	newTimer := func(typeName string) externalFn {
		return func(fr *frame, args []value) value {
			fr.i.needSched("time." + typeName)
			st := zero(fr.i.prog.ImportedPackage("time").Type(typeName).Type()).(structure)
			st[0] = neverFires(fr)
			var v value = st
			return &v
		}
	}
	e["time.NewTimer"] = newTimer("Timer")
	e["time.NewTicker"] = newTimer("Ticker")
	e["time.After"] = func(fr *frame, args []value) value {
		fr.i.needSched("time.After")
		return neverFires(fr)
	}
	e["(*time.Timer).Stop"] = func(fr *frame, args []value) value { return true }
	e["(*time.Timer).Reset"] = func(fr *frame, args []value) value { return true }
	e["(*time.Ticker).Stop"] = func(fr *frame, args []value) value { return nil }
	// time.Sleep in a polling loop: the goroutine sleeps until some synchronisation state has changed (a channel
	// operation, a close, an unlock, a goroutine ending) - polling again earlier would observe the same state
	e["time.Sleep"] = func(fr *frame, args []value) value {
		if s := fr.i.sched; s != nil {
			e0 := s.epoch
			s.wait(fr, func() bool { return s.epoch != e0 }, "time.Sleep")
		}
		return nil
	}
	e["runtime.Gosched"] = func(fr *frame, args []value) value {
		if s := fr.i.sched; s != nil {
			s.point(fr)
		}
		return nil
	}
}
