// Copyright 2013 The Go Authors. All rights reserved.
// Use of this source code is governed by a BSD-style
// license that can be found in the LICENSE file.

package main

// Values
//
// All interpreter values are "boxed" in the empty interface, value.
// The range of possible dynamic types within value are:
//
// - bool
// - numbers (all built-in int/float/complex types are distinguished)
// - string
// - map[value]value --- maps for which  usesBuiltinMap(keyType)
//   *hashmap        --- maps for which !usesBuiltinMap(keyType)
// - chan value
// - []value --- slices
// - iface --- interfaces.
// - structure --- structs.  Fields are ordered and accessed by numeric indices.
// - array --- arrays.
// - *value --- pointers.  Careful: *value is a distinct type from *array etc.
// - *ssa.Function \
//   *ssa.Builtin   } --- functions.  A nil 'func' is always of type *ssa.Function.
//   *closure      /
// - tuple --- as returned by Return, Next, "value,ok" modes, etc.
// - iter --- iterators from 'range' over map or string.
// - bad --- a poison pill for locals that have gone out of scope.
// - rtype -- the interpreter's concrete implementation of reflect.Type
// - **deferred -- the address of a frame's defer stack for a Defer._Stack.
//
// Note that nil is not on this list.
//
// Pay close attention to whether or not the dynamic type is a pointer.
// The compiler cannot help you since value is an empty interface.

import (
	"bytes"
	"fmt"
	"go/types"
	"io"
	"strings"
	"unsafe"

	"golang.org/x/tools/go/ssa"
)

type value interface{}

type tuple []value

type array []value

type iface struct {
	t types.Type // never an "untyped" type
	v value
}

type structure []value

// For map, array, *array, slice, string or channel.
type iter interface {
	// next returns a Tuple (key, value, ok).
	// key and value are unaliased, e.g. copies of the sequence element.
	next() tuple
}

type closure struct {
	Fn  *ssa.Function
	Env []value
}

type bad struct{}

type rtype struct {
	t types.Type
}

// nil-tolerant variant of types.Identical.
func sameType(x, y types.Type) bool {
	if x == nil {
		return y == nil
	}
	return y != nil && types.Identical(x, y)
}

// equalsV returns x == y (Go's equivalence for type t) as a value: a bool, or
// a symbolic Bool when symbolic scalars are involved.
func equalsV(fr *frame, t types.Type, x, y value) value {
	if _, ok := y.(sym); ok {
		if _, ok := x.(sym); !ok {
			x, y = y, x
		}
	}
	switch x := x.(type) {
	case sym:
		return boolV("(= " + x.t + " " + termOf(y) + ")")
	case bool:
		return x == y.(bool)
	case int:
		return x == y.(int)
	case int8:
		return x == y.(int8)
	case int16:
		return x == y.(int16)
	case int32:
		return x == y.(int32)
	case int64:
		return x == y.(int64)
	case uint:
		return x == y.(uint)
	case uint8:
		return x == y.(uint8)
	case uint16:
		return x == y.(uint16)
	case uint32:
		return x == y.(uint32)
	case uint64:
		return x == y.(uint64)
	case uintptr:
		return x == y.(uintptr)
	case float32:
		return x == y.(float32)
	case float64:
		return x == y.(float64)
	case complex64:
		return x == y.(complex64)
	case complex128:
		return x == y.(complex128)
	case string:
		ys := y.(string)
		if x != ys && (isMarked(x) || isMarked(ys)) {
			return markedStringsEqual(x, ys)
		}
		return x == ys
	case *value:
		return x == y.(*value)
	case *schan:
		return x == y.(*schan)
	case structure:
		y := y.(structure)
		var tStruct *types.Struct
		if t != nil {
			tStruct, _ = t.Underlying().(*types.Struct)
		}
		acc := []string{}
		for i := range x {
			var ft types.Type
			if tStruct != nil {
				f := tStruct.Field(i)
				if f.Name() == "_" {
					continue
				}
				ft = f.Type()
			}
			switch r := equalsV(fr, ft, x[i], y[i]).(type) {
			case bool:
				if !r {
					return false
				}
			case sym:
				acc = append(acc, r.t)
			}
		}
		return boolV(mkAnd(acc...))
	case array:
		y := y.(array)
		var tElt types.Type
		if t != nil {
			if ta, ok := t.Underlying().(*types.Array); ok {
				tElt = ta.Elem()
			}
		}
		acc := []string{}
		for i := range x {
			switch r := equalsV(fr, tElt, x[i], y[i]).(type) {
			case bool:
				if !r {
					return false
				}
			case sym:
				acc = append(acc, r.t)
			}
		}
		return boolV(mkAnd(acc...))
	case iface:
		y := y.(iface)
		if !sameType(x.t, y.t) {
			return false
		}
		if x.t == nil {
			return true
		}
		return equalsV(fr, x.t, x.v, y.v)
	case *smap, []value, *ssa.Function, *closure, *nativeFunc:
		// comparable only through interfaces holding uncomparable types
		panic(targetPanic{v: fr.i.runtimeError(fmt.Sprintf("comparing uncomparable type %v", t))})
	case unsafe.Pointer:
		return x == y.(unsafe.Pointer)
	}
	panic(engineAbort{fmt.Sprintf("comparing uncomparable type %s (%T)", t, x)})
}

// reflect.Value struct values don't have a fixed shape, since the
// payload can be a scalar or an aggregate depending on the instance.
// So store (and load) can't simply use recursion over the shape of the
// rhs value, or the lhs, to copy the value; we need the static type
// information.  (We can't make reflect.Value a new basic data type
// because its "structness" is exposed to Go programs.)

// load returns the value of type T in *addr.
func load(T types.Type, addr *value) value {
	switch T := T.Underlying().(type) {
	case *types.Struct:
		v := (*addr).(structure)
		a := make(structure, len(v))
		for i := range a {
			a[i] = load(T.Field(i).Type(), &v[i])
		}
		return a
	case *types.Array:
		v := (*addr).(array)
		a := make(array, len(v))
		for i := range a {
			a[i] = load(T.Elem(), &v[i])
		}
		return a
	default:
		return *addr
	}
}

// store stores value v of type T into *addr.
func store(T types.Type, addr *value, v value) {
	switch T := T.Underlying().(type) {
	case *types.Struct:
		lhs := (*addr).(structure)
		rhs := v.(structure)
		for i := range lhs {
			store(T.Field(i).Type(), &lhs[i], rhs[i])
		}
	case *types.Array:
		lhs := (*addr).(array)
		rhs := v.(array)
		for i := range lhs {
			store(T.Elem(), &lhs[i], rhs[i])
		}
	default:
		*addr = v
	}
}

// Prints in the style of built-in println.
// (More or less; in gc println is actually a compiler intrinsic and
// can distinguish println(1) from println(interface{}(1)).)
func writeValue(buf *bytes.Buffer, v value) {
	switch v := v.(type) {
	case nil, bool, int, int8, int16, int32, int64, uint, uint8, uint16, uint32, uint64, uintptr, float32, float64, complex64, complex128, string:
		fmt.Fprintf(buf, "%v", v)

	case sym:
		buf.WriteString(v.t)

	case *smap:
		buf.WriteString("map[")
		if v != nil {
			for i, e := range v.live() {
				if i > 0 {
					buf.WriteString(" ")
				}
				writeValue(buf, e.key)
				buf.WriteString(":")
				writeValue(buf, e.val)
			}
		}
		buf.WriteString("]")

	case *schan:
		fmt.Fprintf(buf, "chan %p", v)

	case *value:
		if v == nil {
			buf.WriteString("<nil>")
		} else {
			buf.WriteString("<ptr>")
		}

	case iface:
		fmt.Fprintf(buf, "(%s, ", v.t)
		writeValue(buf, v.v)
		buf.WriteString(")")

	case structure:
		buf.WriteString("{")
		for i, e := range v {
			if i > 0 {
				buf.WriteString(" ")
			}
			writeValue(buf, e)
		}
		buf.WriteString("}")

	case array:
		buf.WriteString("[")
		for i, e := range v {
			if i > 0 {
				buf.WriteString(" ")
			}
			writeValue(buf, e)
		}
		buf.WriteString("]")

	case []value:
		buf.WriteString("[")
		for i, e := range v {
			if i > 0 {
				buf.WriteString(" ")
			}
			writeValue(buf, e)
		}
		buf.WriteString("]")

	case *ssa.Function, *ssa.Builtin, *closure:
		fmt.Fprintf(buf, "<func>")

	case rtype:
		buf.WriteString(v.t.String())

	case tuple:
		// Unreachable in well-formed Go programs
		buf.WriteString("(")
		for i, e := range v {
			if i > 0 {
				buf.WriteString(", ")
			}
			writeValue(buf, e)
		}
		buf.WriteString(")")

	default:
		fmt.Fprintf(buf, "<%T>", v)
	}
}

// Implements printing of Go values in the style of built-in println.
func toString(v value) string {
	var b bytes.Buffer
	writeValue(&b, v)
	return b.String()
}

// ------------------------------------------------------------------------
// Iterators

type stringIter struct {
	*strings.Reader
	i int
}

func (it *stringIter) next() tuple {
	okv := make(tuple, 3)
	ch, n, err := it.ReadRune()
	ok := err != io.EOF
	okv[0] = ok
	if ok {
		okv[1] = it.i
		okv[2] = ch
	}
	it.i += n
	return okv
}

