package main

import (
	"encoding/hex"
	"testing"
)

func TestKeccak(t *testing.T) {
	h := keccak256(nil)
	if hex.EncodeToString(h[:]) != "c5d2460186f7233c927e7db2dcc703c0e500b653ca82273b7bfad8045d85a470" {
		t.Fatal(hex.EncodeToString(h[:]))
	}
	h = keccak256([]byte("abc"))
	if hex.EncodeToString(h[:]) != "4e03657aea45a94fc7d47ba826c8d667c0d1e6e33a64a036ec44f58fa12d6c45" {
		t.Fatal(hex.EncodeToString(h[:]))
	}
	long := make([]byte, 300)
	for i := range long {
		long[i] = byte(i)
	}
	_ = keccak256(long)
}
