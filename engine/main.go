package main

// gosym: bounded symbolic execution of Go harness functions over go/ssa,
// deciding assertions with an SMT solver.

import (
	"encoding/json"
	"flag"
	"fmt"
	"go/token"
	"go/types"
	"os"
	"path/filepath"
	"runtime"
	"runtime/pprof"
	"sort"
	"strconv"
	"strings"
	"sync"
	"sync/atomic"
	"time"

	"golang.org/x/tools/go/packages"
	"golang.org/x/tools/go/ssa"
	"golang.org/x/tools/go/ssa/ssautil"
)

type config struct {
	repo       string
	overlay    string
	pkgs       []string
	harnesses  []string
	out        string
	workers    int
	timeoutMs  int
	maxPaths   int
	maxSteps   int64
	maxDecs    int
	mapPermMax int
	falsify    bool
	openKF     map[string]bool
	trace      bool
	concrete   bool
	dumpQ      int
}

func main() {
	var cfg config
	var pkgs, hs, kf string
	flag.StringVar(&cfg.repo, "repo", "/repo", "repository root")
	flag.StringVar(&cfg.overlay, "overlay", "", "overlay JSON {\"Replace\":{virtual:real}}")
	flag.StringVar(&pkgs, "pkgs", "", "comma separated package patterns to load")
	flag.StringVar(&hs, "harness", "", "comma separated pkgpath.Func harness entry points")
	flag.StringVar(&cfg.out, "out", "out", "output directory")
	flag.IntVar(&cfg.workers, "workers", 8, "parallel workers")
	flag.IntVar(&cfg.timeoutMs, "timeout-ms", 20000, "per-query solver timeout")
	flag.IntVar(&cfg.maxPaths, "max-paths", 20000, "path bound per harness")
	flag.Int64Var(&cfg.maxSteps, "max-steps", 20_000_000, "instruction budget per path")
	flag.IntVar(&cfg.maxDecs, "max-decisions", 400, "decision (unwinding) bound per path")
	flag.IntVar(&cfg.mapPermMax, "map-perm-max", 4, "largest map whose iteration order is permuted")
	flag.BoolVar(&cfg.falsify, "falsify", false, "vacuity twin: every assertion replaced by false")
	flag.StringVar(&kf, "open-kf", "", "comma separated ids of open known findings")
	flag.BoolVar(&cfg.trace, "trace", false, "trace instructions")
	flag.IntVar(&cfg.dumpQ, "dump-queries", 0, "dump up to N assertion queries per harness for cross-checking")
	var cpuprof string
	flag.StringVar(&cpuprof, "cpuprofile", "", "write cpu profile")
	flag.Parse()
	if cpuprof != "" {
		f, _ := os.Create(cpuprof)
		pprof.StartCPUProfile(f)
		defer pprof.StopCPUProfile()
	}
	cfg.pkgs = splitList(pkgs)
	cfg.harnesses = splitList(hs)
	cfg.openKF = map[string]bool{}
	for _, k := range splitList(kf) {
		cfg.openKF[k] = true
	}
	os.MkdirAll(cfg.out, 0o755)

	t0 := time.Now()
	prog, err := loadProgram(&cfg)
	if err != nil {
		fmt.Fprintln(os.Stderr, "HARNESS-BUILD-ERROR:", err)
		os.Exit(3)
	}
	loadS := time.Since(t0).Seconds()
	fmt.Fprintf(os.Stderr, "gosym: loaded and built SSA in %.1fs\n", loadS)

	report := map[string]interface{}{"load_s": loadS}
	var results []map[string]interface{}
	exit := 0
	for _, hspec := range cfg.harnesses {
		// per-harness overrides: pkg.Func@max-paths=N@max-decisions=N@map-perm-max=N@timeout-ms=N
		parts := strings.Split(hspec, "@")
		h := parts[0]
		hcfg := cfg
		for _, kv := range parts[1:] {
			k, v, _ := strings.Cut(kv, "=")
			n, err := strconv.Atoi(v)
			if err != nil {
				fmt.Fprintln(os.Stderr, "HARNESS-BUILD-ERROR: bad override", kv)
				os.Exit(3)
			}
			switch k {
			case "max-paths":
				hcfg.maxPaths = n
			case "max-decisions":
				hcfg.maxDecs = n
			case "map-perm-max":
				hcfg.mapPermMax = n
			case "timeout-ms":
				hcfg.timeoutMs = n
			default:
				fmt.Fprintln(os.Stderr, "HARNESS-BUILD-ERROR: unknown override", kv)
				os.Exit(3)
			}
		}
		cfg := hcfg
		fn, err := findFunc(prog, h)
		if err != nil {
			fmt.Fprintln(os.Stderr, "HARNESS-BUILD-ERROR:", err)
			os.Exit(3)
		}
		t1 := time.Now()
		hr := runHarness(prog, fn, h, &cfg)
		res := hr.summary(&cfg)
		res["wall_s"] = time.Since(t1).Seconds()
		results = append(results, res)
		st := res["status"].(string)
		fmt.Printf("HARNESS %s status=%s paths=%d ended=%d decisions=%d violations=%d known=%d incon=%d wall=%.1fs\n",
			h, st, hr.paths, hr.pathsEnd, hr.decisions, len(hr.violations), len(hr.known), len(hr.incon), time.Since(t1).Seconds())
		switch st {
		case "violation":
			if exit == 0 || exit == 2 {
				exit = 1
			}
		case "inconclusive":
			if exit == 0 {
				exit = 2
			}
		}
	}
	report["harnesses"] = results
	report["solver_s"] = float64(totalSolverNs) / 1e9
	report["wall_s"] = time.Since(t0).Seconds()
	b, _ := json.MarshalIndent(report, "", " ")
	os.WriteFile(filepath.Join(cfg.out, "result.json"), b, 0o644)
	if cpuprof != "" {
		pprof.StopCPUProfile()
	}
	os.Exit(exit)
}

func splitList(s string) []string {
	var out []string
	for _, p := range strings.Split(s, ",") {
		p = strings.TrimSpace(p)
		if p != "" {
			out = append(out, p)
		}
	}
	return out
}

func loadProgram(cfg *config) (*ssa.Program, error) {
	overlay := map[string][]byte{}
	if cfg.overlay != "" {
		raw, err := os.ReadFile(cfg.overlay)
		if err != nil {
			return nil, err
		}
		var ov struct{ Replace map[string]string }
		if err := json.Unmarshal(raw, &ov); err != nil {
			return nil, err
		}
		for virt, real := range ov.Replace {
			b, err := os.ReadFile(real)
			if err != nil {
				return nil, err
			}
			overlay[virt] = b
		}
	}
	// never let the go command rewrite /repo/go.mod (harness packages import some indirect dependencies
	// directly): work on a private copy of go.mod / go.sum
	modDir := filepath.Join(cfg.out, "gomod")
	os.MkdirAll(modDir, 0o755)
	for _, f := range []string{"go.mod", "go.sum"} {
		b, err := os.ReadFile(filepath.Join(cfg.repo, f))
		if err != nil {
			return nil, err
		}
		if err := os.WriteFile(filepath.Join(modDir, f), b, 0o644); err != nil {
			return nil, err
		}
	}
	modAbs, _ := filepath.Abs(filepath.Join(modDir, "go.mod"))
	env := append(os.Environ(), "GOFLAGS=-mod=mod -modfile="+modAbs, "GOPROXY=off", "GOSUMDB=off", "GOTOOLCHAIN=local", "GODEBUG=goindex=0")
	pcfg := &packages.Config{
		Mode:       packages.NeedName | packages.NeedFiles | packages.NeedCompiledGoFiles | packages.NeedImports | packages.NeedDeps | packages.NeedTypes | packages.NeedTypesSizes | packages.NeedSyntax | packages.NeedTypesInfo,
		Dir:        cfg.repo,
		Env:        env,
		BuildFlags: []string{"-tags=verif"},
		Overlay:    overlay,
	}
	pkgs, err := packages.Load(pcfg, cfg.pkgs...)
	if err != nil {
		return nil, err
	}
	var errs []string
	packages.Visit(pkgs, nil, func(p *packages.Package) {
		for _, e := range p.Errors {
			if len(errs) < 20 {
				errs = append(errs, e.Error())
			}
		}
	})
	if len(errs) > 0 {
		return nil, fmt.Errorf("package errors:\n%s", strings.Join(errs, "\n"))
	}
	prog, _ := ssautil.AllPackages(pkgs, ssa.InstantiateGenerics)
	prog.Build()
	return prog, nil
}

func findFunc(prog *ssa.Program, spec string) (*ssa.Function, error) {
	k := strings.LastIndex(spec, ".")
	if k < 0 {
		return nil, fmt.Errorf("bad harness spec %q", spec)
	}
	pkg := prog.ImportedPackage(spec[:k])
	if pkg == nil {
		return nil, fmt.Errorf("harness package %q not loaded", spec[:k])
	}
	fn := pkg.Func(spec[k+1:])
	if fn == nil {
		return nil, fmt.Errorf("harness function %q not found", spec)
	}
	return fn, nil
}

func newInterpreter(prog *ssa.Program) *interpreter {
	i := &interpreter{
		prog:  prog,
		sizes: types.SizesFor("gc", "amd64"),
	}
	runtimePkg := prog.ImportedPackage("runtime")
	if runtimePkg == nil {
		panic("ssa.Program doesn't include runtime package")
	}
	i.runtimeErrorString = runtimePkg.Type("errorString").Object().Type()
	return i
}

// resetForPath prepares the interpreter for a new path. Package-level state of
// dependency packages (standard library, cosmos-sdk, go-ethereum, ...) is
// initialised once per worker and kept; packages of the repository under test
// (including the injected harness/model packages) are re-initialised for every path.
func (i *interpreter) resetForPath() {
	if i.globals == nil || os.Getenv("GOSYM_FRESH_GLOBALS") != "" {
		i.globals = make(map[*ssa.Global]*value)
		i.pkgInit = make(map[*ssa.Package]int)
	} else {
		for pkg := range i.pkgInit {
			if isVolatilePkg(pkg) {
				for _, m := range pkg.Members {
					if g, ok := m.(*ssa.Global); ok {
						delete(i.globals, g)
					}
				}
				delete(i.pkgInit, pkg)
			}
		}
	}
	i.extState = make(map[string]interface{})
	i.callDepth = 0
	i.inInit = 0
	i.sched = nil
}

// Package-level state is initialised once per worker and kept across paths
// (as it is kept across transactions in the real process). SMT symbols carry a
// per-path id, so a stale symbolic term leaking through a package-level cache
// is an undeclared constant for the solver, i.e. an error => inconclusive,
// never a silent confusion. GOSYM_FRESH_GLOBALS=1 re-initialises everything per path.
func isVolatilePkg(pkg *ssa.Package) bool {
	return false
}

var pathCounter int64

type workQueue struct {
	mu     sync.Mutex
	cond   *sync.Cond
	stack  [][]int
	active int
	stop   bool
}

func runHarness(prog *ssa.Program, fn *ssa.Function, name string, cfg *config) *harnessRun {
	hr := &harnessRun{name: name, asserted: map[string]int{}, reached: map[string]int{}, funcs: map[string]bool{}, stubs: map[string]bool{}}
	hr.falsify = cfg.falsify
	hr.dumpDir = cfg.out
	hr.dumpMax = cfg.dumpQ
	hr.openKF = cfg.openKF
	q := &workQueue{stack: [][]int{{}}}
	q.cond = sync.NewCond(&q.mu)
	var wg sync.WaitGroup
	nw := cfg.workers
	if nw < 1 {
		nw = 1
	}
	for w := 0; w < nw; w++ {
		wg.Add(1)
		go func(w int) {
			defer wg.Done()
			sol, err := newSolver(cfg.timeoutMs, nil)
			if err != nil {
				hr.mu.Lock()
				hr.incon = append(hr.incon, "cannot start solver: "+err.Error())
				hr.mu.Unlock()
				return
			}
			defer sol.close()
			in := newInterpreter(prog)
			in.tracing = cfg.trace
			for {
				q.mu.Lock()
				for len(q.stack) == 0 && q.active > 0 && !q.stop {
					q.cond.Wait()
				}
				if q.stop || (len(q.stack) == 0 && q.active == 0) {
					q.mu.Unlock()
					q.cond.Broadcast()
					return
				}
				prefix := q.stack[len(q.stack)-1]
				q.stack = q.stack[:len(q.stack)-1]
				q.active++
				q.mu.Unlock()

				alts := runPath(in, sol, fn, prefix, hr, cfg)

				q.mu.Lock()
				// push in reverse so that lower alternatives are explored first
				for k := len(alts) - 1; k >= 0; k-- {
					q.stack = append(q.stack, alts[k])
				}
				q.active--
				hr.mu.Lock()
				if hr.paths >= cfg.maxPaths && len(q.stack) > 0 {
					hr.incon = append(hr.incon, fmt.Sprintf("path bound %d reached with %d prefixes pending", cfg.maxPaths, len(q.stack)))
					q.stop = true
				}
				hr.mu.Unlock()
				q.mu.Unlock()
				q.cond.Broadcast()
			}
		}(w)
	}
	wg.Wait()
	return hr
}

func runPath(in *interpreter, sol *solver, fn *ssa.Function, prefix []int, hr *harnessRun, cfg *config) (alts [][]int) {
	in.resetForPath()
	st := &pathState{
		sol: sol, hr: hr, prefix: prefix,
		maxSteps: cfg.maxSteps, maxDecs: cfg.maxDecs, mapPermMax: cfg.mapPermMax,
		funcs: map[*ssa.Function]bool{}, stubs: map[string]bool{},
		asserted: map[string]int{}, reached: map[string]bool{}, notes: map[string]string{},
	}
	st.pathID = atomic.AddInt64(&pathCounter, 1)
	in.st = st
	base := sol.depth
	sol.push()
	s0, u0, k0 := sol.nSat, sol.nUnsat, sol.nUnknown
	ended := false
	endReason := ""
	func() {
		defer func() {
			r := recover()
			if r == nil {
				return
			}
			switch p := r.(type) {
			case pathEnd:
				endReason = p.reason
				if p.incon {
					st.incon = append(st.incon, p.reason)
				}
			case abortAt:
				msg := "unsupported: " + p.msg
				if len(p.where) > 0 {
					msg += " @ " + strings.Join(p.where[:minInt(len(p.where), 6)], " <- ")
				}
				st.incon = append(st.incon, msg)
			case engineAbort:
				st.incon = append(st.incon, "unsupported: "+p.msg)
			case targetPanic:
				// unobserved panic escaping the harness on a feasible path
				msg := panicValueString(in, nil, p.v)
				res, vals := sol.check("", st.inputTerms())
				if res == resSat {
					v := st.mkViolation("no-unobserved-panic", "", vals, "true")
					v.Note = msg
					if len(p.where) > 0 {
						v.Note += " @ " + strings.Join(p.where[:minInt(len(p.where), 8)], " <- ")
					}
					st.violations = append(st.violations, v)
				} else if res == resUnknown {
					st.incon = append(st.incon, "unobserved panic on a path of unknown feasibility: "+msg)
				}
			default:
				buf := make([]byte, 8192)
				n := runtime.Stack(buf, false)
				st.incon = append(st.incon, fmt.Sprintf("engine crash: %v\n%s", r, buf[:n]))
			}
		}()
		call(in, nil, token.NoPos, fn, nil)
		ended = true
	}()
	if in.sched != nil {
		in.sched.killAll()
		in.sched = nil
	}
	var sample map[string]string
	if ended {
		res, vals := sol.check("", st.inputTerms())
		switch res {
		case resSat:
			st.reached["end"] = true
			sample = map[string]string{}
			for k, inp := range st.inputs {
				if k < len(vals) && k < 2000 {
					sample[inp.Name] = vals[k]
				}
			}
		case resUnknown:
			st.incon = append(st.incon, "end of path: feasibility unknown")
		case resUnsat:
			ended = false
			endReason = "infeasible"
		}
	}
	sol.popTo(base)
	in.st = nil

	hr.mu.Lock()
	defer hr.mu.Unlock()
	hr.paths++
	if ended {
		hr.pathsEnd++
		if sample != nil && len(hr.samples) < 5 {
			// witness file in counterexample format, for native validation of a passing path
			sv := violation{Harness: hr.name, Label: "<sample>", Inputs: map[string]string{}, Prefix: append([]int(nil), st.taken...)}
			for k, v := range sample {
				sv.Inputs[k] = v
			}
			b, _ := json.MarshalIndent(sv, "", " ")
			short := hr.name[strings.LastIndex(hr.name, ".")+1:]
			os.WriteFile(filepath.Join(cfg.out, fmt.Sprintf("sample-%s-%d.json", sanitize(short), len(hr.samples))), b, 0o644)
			for k, n := range st.notes {
				sample["note:"+k] = n
			}
			hr.samples = append(hr.samples, sample)
		}
	} else if endReason == "infeasible" || endReason == "assumption false" || endReason == "assumption infeasible" {
		hr.infeasible++
	}
	for l, n := range st.asserted {
		hr.asserted[l] += n
	}
	for l := range st.reached {
		hr.reached[l]++
	}
	hr.violations = append(hr.violations, st.violations...)
	hr.known = append(hr.known, st.known...)
	for _, m := range st.incon {
		if len(hr.incon) < 50 {
			hr.incon = append(hr.incon, m)
		}
	}
	for f := range st.funcs {
		hr.funcs[f.String()] = true
	}
	for s := range st.stubs {
		hr.stubs[s] = true
	}
	hr.stepsTotal += st.steps
	hr.panicsSeen += st.recovered
	hr.nSat += sol.nSat - s0
	hr.nUnsat += sol.nUnsat - u0
	hr.nUnknown += sol.nUnknown - k0
	if len(sol.errors) > 0 {
		hr.solverErr = append(hr.solverErr, sol.errors...)
		sol.errors = nil
	}
	return st.alts
}

func minInt(a, b int) int {
	if a < b {
		return a
	}
	return b
}

func (hr *harnessRun) summary(cfg *config) map[string]interface{} {
	status := "ok"
	if len(hr.solverErr) > 0 {
		hr.incon = append(hr.incon, "solver error output: "+hr.solverErr[0])
	}
	if hr.pathsEnd == 0 && len(hr.violations) == 0 {
		hr.incon = append(hr.incon, "vacuous: no feasible path reached the end of the harness")
	}
	if len(hr.incon) > 0 {
		status = "inconclusive"
	}
	if len(hr.violations) > 0 {
		status = "violation"
	}
	// write counterexamples
	var vfiles []string
	dump := func(kind string, vs []violation) []string {
		var files []string
		seen := map[string]bool{}
		for k, v := range vs {
			key := v.Label + "|" + v.KF
			if seen[key] && k > 0 {
				// keep at most 3 per label
			}
			if len(files) >= 12 {
				break
			}
			seen[key] = true
			base := fmt.Sprintf("%s-%s-%d", kind, sanitize(hr.name[strings.LastIndex(hr.name, ".")+1:]), k)
			p := filepath.Join(cfg.out, base+".json")
			b, _ := json.MarshalIndent(v, "", " ")
			os.WriteFile(p, b, 0o644)
			os.WriteFile(filepath.Join(cfg.out, base+".smt2"), []byte(v.smt), 0o644)
			files = append(files, p)
		}
		return files
	}
	vfiles = dump("cex", hr.violations)
	kfiles := dump("kf", hr.known)
	var vl, kl []map[string]interface{}
	for k, v := range hr.violations {
		if k >= 12 {
			break
		}
		vl = append(vl, map[string]interface{}{"label": v.Label, "inputs": v.Inputs, "note": v.Note, "file": vfiles[k]})
	}
	for k, v := range hr.known {
		if k >= 12 {
			break
		}
		kl = append(kl, map[string]interface{}{"label": v.Label, "kf": v.KF, "inputs": v.Inputs, "file": kfiles[k]})
	}
	if forkProf {
		type kv struct {
			k string
			n int
		}
		var l []kv
		for k, n := range hr.forkSites {
			l = append(l, kv{k, n})
		}
		sort.Slice(l, func(a, b int) bool { return l[a].n > l[b].n })
		for k, e := range l {
			if k >= 25 {
				break
			}
			fmt.Fprintf(os.Stderr, "FORK %6d %s\n", e.n, e.k)
		}
	}
	fnames := sortedKeys(hr.funcs)
	labels := map[string]int{}
	for l, n := range hr.asserted {
		labels[l] = n
	}
	incon := hr.incon
	sort.Strings(incon)
	return map[string]interface{}{
		"harness":        hr.name,
		"status":         status,
		"paths":          hr.paths,
		"paths_ended":    hr.pathsEnd,
		"infeasible":     hr.infeasible,
		"decisions":      hr.decisions,
		"unknown_branch": hr.unknownBr,
		"assert_labels":  labels,
		"reach":          hr.reached,
		"violations":     vl,
		"n_violations":   len(hr.violations),
		"known":          kl,
		"n_known":        len(hr.known),
		"inconclusive":   incon,
		"functions":      fnames,
		"stubs":          sortedKeys(hr.stubs),
		"samples":        hr.samples,
		"steps":          hr.stepsTotal,
		"observed_panic": hr.panicsSeen,
		"queries":        map[string]int64{"sat": hr.nSat, "unsat": hr.nUnsat, "unknown": hr.nUnknown},
		"falsify":        cfg.falsify,
	}
}
