package main

// math/big.Int as an intrinsic type. The interpreter keeps a big.Int struct
// as structure{neg, abs}; the engine stores the whole payload in field 1:
// nil ([]value(nil)) = 0, *big.Int (treated as immutable) or a sym of kind
// UntypedInt (unbounded mathematical integer).

import (
	big2 "math/big"
	"strconv"
	"fmt"
	"go/types"
	"math/big"
	"strings"
)

func (fr *frame) bigCell(p value) *value {
	pp, ok := p.(*value)
	if !ok {
		panic(engineAbort{fmt.Sprintf("big.Int receiver is %T", p)})
	}
	if pp == nil {
		fr.nilDeref()
	}
	s, ok := (*pp).(structure)
	if !ok || len(s) != 2 {
		panic(engineAbort{fmt.Sprintf("big.Int cell is %T", *pp)})
	}
	return &s[1]
}

// bigGet returns the payload of the big.Int pointed to by p: *big.Int or sym.
func (fr *frame) bigGet(p value) value {
	c := fr.bigCell(p)
	switch v := (*c).(type) {
	case *big.Int:
		return v
	case sym:
		return v
	case []value:
		if v == nil {
			return new(big.Int)
		}
	}
	panic(engineAbort{fmt.Sprintf("big.Int payload is %T", *c)})
}

func (fr *frame) bigSet(p value, v value) value {
	c := fr.bigCell(p)
	switch v.(type) {
	case *big.Int, sym:
		*c = v
	default:
		panic(engineAbort{fmt.Sprintf("bigSet %T", v)})
	}
	return p
}

func newBigCell(v value) *value {
	var cell value = structure{false, v}
	return &cell
}

func bigTerm(v value) string {
	switch v := v.(type) {
	case *big.Int:
		return bigLit(v)
	case sym:
		return v.t
	}
	panic(engineAbort{"bigTerm"})
}

func bigSym(t string) sym { return sym{t, types.UntypedInt} }

func (fr *frame) bigDivZero(y value) {
	switch y := y.(type) {
	case *big.Int:
		if y.Sign() == 0 {
			panic(targetPanic{v: iface{fr.i.stringType(), "division by zero"}})
		}
	case sym:
		if fr.i.decideBool(fr, "(= "+y.t+" 0)") {
			panic(targetPanic{v: iface{fr.i.stringType(), "division by zero"}})
		}
	}
}

func (i *interpreter) stringType() types.Type { return types.Typ[types.String] }

type bigBin func(z, x, y *big.Int) *big.Int

func bigBinop(name string, conc bigBin, symf func(a, b string) string, divlike bool) externalFn {
	return func(fr *frame, args []value) value {
		x := fr.bigGet(args[1])
		y := fr.bigGet(args[2])
		if divlike {
			fr.bigDivZero(y)
		}
		xc, xok := x.(*big.Int)
		yc, yok := y.(*big.Int)
		if xok && yok {
			return fr.bigSet(args[0], conc(new(big.Int), xc, yc))
		}
		return fr.bigSet(args[0], bigSym(symf(bigTerm(x), bigTerm(y))))
	}
}

var bitLenThresholds = []int{1, 2, 8, 9, 16, 17, 32, 33, 63, 64, 65, 128, 129, 160, 161, 255, 256, 257, 258}

func init() {
	e := externals
	e["math/big.NewInt"] = func(fr *frame, args []value) value {
		switch v := args[0].(type) {
		case int64:
			return newBigCell(big.NewInt(v))
		case sym:
			return newBigCell(bigSym(v.t))
		}
		panic(engineAbort{"big.NewInt arg"})
	}
	e["(*math/big.Int).Add"] = bigBinop("Add", (*big.Int).Add, func(a, b string) string { return "(+ " + a + " " + b + ")" }, false)
	e["(*math/big.Int).Sub"] = bigBinop("Sub", (*big.Int).Sub, func(a, b string) string { return "(- " + a + " " + b + ")" }, false)
	e["(*math/big.Int).Mul"] = bigBinop("Mul", (*big.Int).Mul, func(a, b string) string { return "(* " + a + " " + b + ")" }, false)
	e["(*math/big.Int).Quo"] = bigBinop("Quo", (*big.Int).Quo, tdivTerm, true)
	e["(*math/big.Int).Rem"] = bigBinop("Rem", (*big.Int).Rem, tremTerm, true)
	e["(*math/big.Int).Div"] = bigBinop("Div", (*big.Int).Div, func(a, b string) string { return "(div " + a + " " + b + ")" }, true)
	e["(*math/big.Int).Mod"] = bigBinop("Mod", (*big.Int).Mod, func(a, b string) string { return "(mod " + a + " " + b + ")" }, true)
	e["(*math/big.Int).QuoRem"] = func(fr *frame, args []value) value {
		// z.QuoRem(x, y, r)
		x := fr.bigGet(args[1])
		y := fr.bigGet(args[2])
		fr.bigDivZero(y)
		xc, xok := x.(*big.Int)
		yc, yok := y.(*big.Int)
		if xok && yok {
			q, r := new(big.Int).QuoRem(xc, yc, new(big.Int))
			fr.bigSet(args[0], q)
			fr.bigSet(args[3], r)
		} else {
			fr.bigSet(args[0], bigSym(tdivTerm(bigTerm(x), bigTerm(y))))
			fr.bigSet(args[3], bigSym(tremTerm(bigTerm(x), bigTerm(y))))
		}
		return tuple{args[0], args[3]}
	}
	e["(*math/big.Int).DivMod"] = func(fr *frame, args []value) value {
		x := fr.bigGet(args[1])
		y := fr.bigGet(args[2])
		fr.bigDivZero(y)
		xc, xok := x.(*big.Int)
		yc, yok := y.(*big.Int)
		if xok && yok {
			q, r := new(big.Int).DivMod(xc, yc, new(big.Int))
			fr.bigSet(args[0], q)
			fr.bigSet(args[3], r)
		} else {
			fr.bigSet(args[0], bigSym("(div "+bigTerm(x)+" "+bigTerm(y)+")"))
			fr.bigSet(args[3], bigSym("(mod "+bigTerm(x)+" "+bigTerm(y)+")"))
		}
		return tuple{args[0], args[3]}
	}
	e["(*math/big.Int).Neg"] = func(fr *frame, args []value) value {
		switch x := fr.bigGet(args[1]).(type) {
		case *big.Int:
			return fr.bigSet(args[0], new(big.Int).Neg(x))
		case sym:
			return fr.bigSet(args[0], bigSym("(- "+x.t+")"))
		}
		return nil
	}
	e["(*math/big.Int).Abs"] = func(fr *frame, args []value) value {
		switch x := fr.bigGet(args[1]).(type) {
		case *big.Int:
			return fr.bigSet(args[0], new(big.Int).Abs(x))
		case sym:
			return fr.bigSet(args[0], bigSym("(abs "+x.t+")"))
		}
		return nil
	}
	e["(*math/big.Int).Set"] = func(fr *frame, args []value) value {
		return fr.bigSet(args[0], fr.bigGet(args[1]))
	}
	e["(*math/big.Int).SetUint64"] = func(fr *frame, args []value) value {
		switch v := args[1].(type) {
		case uint64:
			return fr.bigSet(args[0], new(big.Int).SetUint64(v))
		case sym:
			return fr.bigSet(args[0], bigSym(v.t))
		}
		panic(engineAbort{"SetUint64 arg"})
	}
	e["(*math/big.Int).SetInt64"] = func(fr *frame, args []value) value {
		switch v := args[1].(type) {
		case int64:
			return fr.bigSet(args[0], big.NewInt(v))
		case sym:
			return fr.bigSet(args[0], bigSym(v.t))
		}
		panic(engineAbort{"SetInt64 arg"})
	}
	e["(*math/big.Int).SetBytes"] = func(fr *frame, args []value) value {
		bs := args[1].([]value)
		if len(bs) == 1 {
			if bb, ok := bs[0].(bigBytesV); ok {
				return fr.bigSet(args[0], bigSym(bb.t))
			}
		}
		allc := true
		for _, b := range bs {
			if _, ok := b.(uint8); !ok {
				allc = false
			}
		}
		if allc {
			raw := make([]byte, len(bs))
			for k, b := range bs {
				raw[k] = b.(uint8)
			}
			return fr.bigSet(args[0], new(big.Int).SetBytes(raw))
		}
		var parts []string
		for k, b := range bs {
			sh := pow2[8*(len(bs)-1-k)]
			switch b := b.(type) {
			case uint8:
				if b != 0 {
					parts = append(parts, new(big.Int).Mul(sh, big.NewInt(int64(b))).String())
				}
			case sym:
				if sh.BitLen() == 1 {
					parts = append(parts, b.t)
				} else {
					parts = append(parts, "(* "+sh.String()+" "+b.t+")")
				}
			}
		}
		t := parts[0]
		if len(parts) > 1 {
			t = "(+ " + strings.Join(parts, " ") + ")"
		}
		return fr.bigSet(args[0], bigSym(t))
	}
	e["(*math/big.Int).SetString"] = func(fr *frame, args []value) value {
		s, ok := args[1].(string)
		if ok && isMarked(s) {
			// the decimal rendering of one symbolic integer parses back to that integer
			if toks := tokenizeMarked(s); len(toks) == 1 && strings.HasPrefix(toks[0].atom, "big:") && (args[2].(int) == 10 || args[2].(int) == 0) {
				fr.bigSet(args[0], bigSym(strings.TrimPrefix(toks[0].atom, "big:")))
				return tuple{args[0], true}
			}
		}
		if !ok || isMarked(s) {
			panic(engineAbort{"big.Int.SetString on symbolic string"})
		}
		r, ok2 := new(big.Int).SetString(s, args[2].(int))
		if !ok2 {
			return tuple{(*value)(nil), false}
		}
		fr.bigSet(args[0], r)
		return tuple{args[0], true}
	}
	e["(*math/big.Int).Cmp"] = func(fr *frame, args []value) value {
		x := fr.bigGet(args[0])
		y := fr.bigGet(args[1])
		xc, xok := x.(*big.Int)
		yc, yok := y.(*big.Int)
		if xok && yok {
			return xc.Cmp(yc)
		}
		a, b := bigTerm(x), bigTerm(y)
		return sym{"(ite (< " + a + " " + b + ") (- 1) (ite (> " + a + " " + b + ") 1 0))", types.Int}
	}
	e["(*math/big.Int).CmpAbs"] = func(fr *frame, args []value) value {
		x := fr.bigGet(args[0])
		y := fr.bigGet(args[1])
		xc, xok := x.(*big.Int)
		yc, yok := y.(*big.Int)
		if xok && yok {
			return xc.CmpAbs(yc)
		}
		a, b := "(abs "+bigTerm(x)+")", "(abs "+bigTerm(y)+")"
		return sym{"(ite (< " + a + " " + b + ") (- 1) (ite (> " + a + " " + b + ") 1 0))", types.Int}
	}
	e["(*math/big.Int).Sign"] = func(fr *frame, args []value) value {
		switch x := fr.bigGet(args[0]).(type) {
		case *big.Int:
			return x.Sign()
		case sym:
			return sym{"(ite (< " + x.t + " 0) (- 1) (ite (> " + x.t + " 0) 1 0))", types.Int}
		}
		return nil
	}
	e["(*math/big.Int).Uint64"] = func(fr *frame, args []value) value {
		switch x := fr.bigGet(args[0]).(type) {
		case *big.Int:
			return x.Uint64()
		case sym:
			return sym{"(mod (abs " + x.t + ") " + pow2[64].String() + ")", types.Uint64}
		}
		return nil
	}
	e["(*math/big.Int).Int64"] = func(fr *frame, args []value) value {
		switch x := fr.bigGet(args[0]).(type) {
		case *big.Int:
			return x.Int64()
		case sym:
			return sym{wrapTerm(types.Int64, x.t), types.Int64}
		}
		return nil
	}
	e["(*math/big.Int).IsUint64"] = func(fr *frame, args []value) value {
		switch x := fr.bigGet(args[0]).(type) {
		case *big.Int:
			return x.IsUint64()
		case sym:
			return boolV("(and (>= " + x.t + " 0) (< " + x.t + " " + pow2[64].String() + "))")
		}
		return nil
	}
	e["(*math/big.Int).IsInt64"] = func(fr *frame, args []value) value {
		switch x := fr.bigGet(args[0]).(type) {
		case *big.Int:
			return x.IsInt64()
		case sym:
			return boolV("(and (>= " + x.t + " (- " + pow2[63].String() + ")) (< " + x.t + " " + pow2[63].String() + "))")
		}
		return nil
	}
	e["(*math/big.Int).BitLen"] = func(fr *frame, args []value) value {
		switch x := fr.bigGet(args[0]).(type) {
		case *big.Int:
			return x.BitLen()
		case sym:
			// staircase: exact at the thresholds the reachable code compares against
			if fr.i.st != nil {
				fr.i.st.noteStub("(*math/big.Int).BitLen[symbolic: exact only w.r.t. thresholds]")
			}
			a := "(abs " + x.t + ")"
			res := "0"
			for k := 0; k < len(bitLenThresholds); k++ {
				th := bitLenThresholds[k]
				res = "(ite (>= bl " + pow2[th-1].String() + ") " + fmt.Sprint(th) + " " + res + ")"
			}
			return sym{"(let ((bl " + a + ")) " + res + ")", types.Int}
		}
		return nil
	}
	e["cosmossdk.io/math.bigIntOverflows"] = func(fr *frame, args []value) value {
		switch x := fr.bigGet(args[0]).(type) {
		case *big.Int:
			return x.BitLen() > 256
		case sym:
			return boolV("(>= (abs " + x.t + ") " + pow2[256].String() + ")")
		}
		return nil
	}
	e["(*math/big.Int).Bits"] = func(fr *frame, args []value) value {
		x, ok := fr.bigGet(args[0]).(*big.Int)
		if !ok {
			panic(engineAbort{"big.Int.Bits of symbolic value"})
		}
		ws := x.Bits()
		out := make([]value, len(ws))
		for k, w := range ws {
			out[k] = uint(w)
		}
		return out
	}
	e["(*math/big.Int).Bytes"] = func(fr *frame, args []value) value {
		switch x := fr.bigGet(args[0]).(type) {
		case *big.Int:
			return bytesToValue(x.Bytes())
		case sym:
			// big-bytes object: a one-element slice standing for the minimal big-endian encoding of |x|. It is
			// understood by SetBytes, common.BytesToHash / LeftPadBytes and by copying; its length is only right
			// for x != 0 (the callers here store / hash non-zero amounts or go through BytesToHash).
			if fr.i.decideBool(fr, "(= "+x.t+" 0)") {
				return []value{}
			}
			return []value{bigBytesV{"(abs " + x.t + ")"}}
		}
		return nil
	}
	padTo := func(fr *frame, bs []value, n int) ([]value, bool) {
		if len(bs) != 1 {
			return nil, false
		}
		bb, ok := bs[0].(bigBytesV)
		if !ok {
			return nil, false
		}
		if fr.i.decideBool(fr, "(>= "+bb.t+" "+pow2[8*n].String()+")") {
			panic(engineAbort{"big-bytes object wider than its destination"})
		}
		// n fresh byte variables whose big-endian value is the number (linear, instead of div/mod terms)
		st := fr.i.needState("big-bytes")
		out := make([]value, n)
		var parts []string
		for k := 0; k < n; k++ {
			t := st.fresh(fmt.Sprintf("bb%d", k), "Int")
			st.addPC(rangeConstraint(types.Uint8, t))
			out[k] = sym{t, types.Uint8}
			if k == n-1 {
				parts = append(parts, t)
			} else {
				parts = append(parts, "(* "+pow2[8*(n-1-k)].String()+" "+t+")")
			}
		}
		st.addPC("(= " + bb.t + " (+ " + strings.Join(parts, " ") + "))")
		return out, true
	}
	e["github.com/ethereum/go-ethereum/common.BytesToHash"] = func(fr *frame, args []value) value {
		bs, _ := args[0].([]value)
		if p, ok := padTo(fr, bs, 32); ok {
			return array(p)
		}
		out := make(array, 32)
		for k := range out {
			out[k] = uint8(0)
		}
		if len(bs) > 32 {
			bs = bs[len(bs)-32:]
		}
		copy(out[32-len(bs):], bs)
		return out
	}
	e["github.com/ethereum/go-ethereum/common.LeftPadBytes"] = func(fr *frame, args []value) value {
		bs, _ := args[0].([]value)
		n := int(asInt64(args[1]))
		if p, ok := padTo(fr, bs, n); ok {
			return p
		}
		if n <= len(bs) {
			return bs
		}
		out := make([]value, n)
		for k := range out {
			out[k] = uint8(0)
		}
		copy(out[n-len(bs):], bs)
		return out
	}
	e["(*math/big.Int).FillBytes"] = func(fr *frame, args []value) value {
		buf := args[1].([]value)
		switch x := fr.bigGet(args[0]).(type) {
		case *big.Int:
			if (x.BitLen()+7)/8 > len(buf) {
				panic(targetPanic{v: iface{types.Typ[types.String], "math/big: buffer too small to fit value"}})
			}
			raw := make([]byte, len(buf))
			x.FillBytes(raw)
			for k := range raw {
				buf[k] = raw[k]
			}
			return args[1]
		case sym:
			// byte k (big endian) = (|x| div 256^(n-1-k)) mod 256 ; requires |x| < 256^n
			n := len(buf)
			if fr.i.decideBool(fr, "(>= (abs "+x.t+") "+pow2[8*n].String()+")") {
				panic(targetPanic{v: iface{types.Typ[types.String], "math/big: buffer too small to fit value"}})
			}
			for k := 0; k < n; k++ {
				buf[k] = sym{"(mod (div (abs " + x.t + ") " + pow2[8*(n-1-k)].String() + ") 256)", types.Uint8}
			}
			return args[1]
		}
		return nil
	}
	str := func(fr *frame, args []value) value {
		switch x := fr.bigGet(args[0]).(type) {
		case *big.Int:
			if len(args) > 1 {
				return x.Text(args[1].(int))
			}
			return x.String()
		case sym:
			return markString("big:" + x.t)
		}
		return nil
	}
	e["(*math/big.Int).String"] = func(fr *frame, args []value) value {
		if p, ok := args[0].(*value); ok && p == nil {
			return "<nil>"
		}
		return str(fr, args)
	}
	e["(*math/big.Int).Text"] = str
	// decimal rendering of machine integers: concrete -> the real digits; symbolic -> the same injective
	// marked rendering as big.Int.String (base 10 only)
	fmtInt := func(fr *frame, args []value) value {
		if s, ok := args[0].(sym); ok {
			if len(args) > 1 {
				if b, okb := args[1].(int); !okb || b != 10 {
					panic(engineAbort{"strconv.Format* of a symbolic value in a base other than 10"})
				}
			}
			return markString("big:" + s.t)
		}
		switch x := args[0].(type) {
		case uint64:
			b := 10
			if len(args) > 1 {
				b = args[1].(int)
			}
			return strconv.FormatUint(x, b)
		case int64:
			b := 10
			if len(args) > 1 {
				b = args[1].(int)
			}
			return strconv.FormatInt(x, b)
		case int:
			return strconv.Itoa(x)
		}
		panic(engineAbort{fmt.Sprintf("strconv.Format* of %T", args[0])})
	}
	// encoding/binary fixed-width integers: a symbolic value becomes n fresh byte variables tied to it by one
	// linear equation (instead of shift/mask terms), and reading symbolic bytes back is the same linear sum
	putN := func(n int, big bool) externalFn {
		return func(fr *frame, args []value) value {
			b := args[1].([]value)
			if len(b) < n {
				panic(targetPanic{v: fr.i.runtimeError("index out of range")})
			}
			v := args[2]
			if sv, ok := v.(sym); ok {
				st := fr.i.needState("binary.Put")
				var parts []string
				for k := 0; k < n; k++ { // k = significance
					t := st.fresh(fmt.Sprintf("be%d", k), "Int")
					st.addPC(rangeConstraint(types.Uint8, t))
					idx := k
					if big {
						idx = n - 1 - k
					}
					b[idx] = sym{t, types.Uint8}
					if k == 0 {
						parts = append(parts, t)
					} else {
						parts = append(parts, "(* "+pow2[8*k].String()+" "+t+")")
					}
				}
				st.addPC("(= " + sv.t + " (+ " + strings.Join(parts, " ") + "))")
				if big {
					run := &beRun{val: sv.t}
					for idx := 0; idx < n; idx++ {
						run.bytes = append(run.bytes, b[idx].(sym).t)
					}
					if st.beRuns == nil {
						st.beRuns = map[string]*beRun{}
					}
					st.beRuns[run.bytes[0]] = run
				}
				return nil
			}
			x := uint64(asInt64(v))
			if u, ok := v.(uint64); ok {
				x = u
			}
			for k := 0; k < n; k++ {
				idx := k
				if big {
					idx = n - 1 - k
				}
				b[idx] = uint8(x >> (8 * uint(k)))
			}
			return nil
		}
	}
	getN := func(n int, big bool, kind types.BasicKind) externalFn {
		return func(fr *frame, args []value) value {
			b := args[1].([]value)
			if len(b) < n {
				panic(targetPanic{v: fr.i.runtimeError("index out of range")})
			}
			allc := true
			var x uint64
			var parts []string
			for k := 0; k < n; k++ {
				idx := k
				if big {
					idx = n - 1 - k
				}
				switch bv := b[idx].(type) {
				case uint8:
					x |= uint64(bv) << (8 * uint(k))
					if bv != 0 {
						parts = append(parts, new(big2.Int).Mul(pow2[8*k], big2.NewInt(int64(bv))).String())
					}
				default:
					allc = false
					if k == 0 {
						parts = append(parts, termOf(bv))
					} else {
						parts = append(parts, "(* "+pow2[8*k].String()+" "+termOf(bv)+")")
					}
				}
			}
			if allc {
				switch kind {
				case types.Uint64:
					return x
				case types.Uint32:
					return uint32(x)
				}
				return uint16(x)
			}
			if len(parts) == 1 {
				return sym{parts[0], kind}
			}
			return sym{"(+ " + strings.Join(parts, " ") + ")", kind}
		}
	}
	e["(encoding/binary.bigEndian).PutUint64"] = putN(8, true)
	e["(encoding/binary.bigEndian).PutUint32"] = putN(4, true)
	e["(encoding/binary.bigEndian).PutUint16"] = putN(2, true)
	e["(encoding/binary.littleEndian).PutUint64"] = putN(8, false)
	e["(encoding/binary.littleEndian).PutUint32"] = putN(4, false)
	e["(encoding/binary.bigEndian).Uint64"] = getN(8, true, types.Uint64)
	e["(encoding/binary.bigEndian).Uint32"] = getN(4, true, types.Uint32)
	e["(encoding/binary.bigEndian).Uint16"] = getN(2, true, types.Uint16)
	e["(encoding/binary.littleEndian).Uint64"] = getN(8, false, types.Uint64)
	e["(encoding/binary.littleEndian).Uint32"] = getN(4, false, types.Uint32)
	// strconv.ParseUint of the marked decimal rendering of one symbolic integer gives that integer back (range
	// error decided by the solver); concrete strings go through the real parser
	e["strconv.ParseUint"] = func(fr *frame, args []value) value {
		s := argString(args[0])
		base, bits := args[1].(int), args[2].(int)
		if isMarked(s) {
			toks := tokenizeMarked(s)
			if len(toks) == 1 && strings.HasPrefix(toks[0].atom, "big:") && (base == 10 || base == 0) && (bits == 64 || bits == 0) {
				t := strings.TrimPrefix(toks[0].atom, "big:")
				if fr.i.decideBool(fr, "(and (>= "+t+" 0) (< "+t+" 18446744073709551616))") {
					return tuple{sym{t, types.Uint64}, iface{}}
				}
				return tuple{uint64(0), fr.i.newErrorString("strconv.ParseUint: value out of range")}
			}
			panic(engineAbort{"strconv.ParseUint of a symbolic string"})
		}
		r, err := strconv.ParseUint(s, base, bits)
		if err != nil {
			return tuple{r, fr.i.newErrorString(err.Error())}
		}
		return tuple{r, iface{}}
	}
	e["strconv.FormatUint"] = fmtInt
	e["strconv.FormatInt"] = fmtInt
	e["strconv.Itoa"] = fmtInt
	e["(*math/big.Int).Exp"] = func(fr *frame, args []value) value {
		x, xok := fr.bigGet(args[1]).(*big.Int)
		y, yok := fr.bigGet(args[2]).(*big.Int)
		var m *big.Int
		mok := true
		if p, ok := args[3].(*value); ok && p != nil {
			m, mok = fr.bigGet(args[3]).(*big.Int)
		}
		if !xok || !yok || !mok {
			panic(engineAbort{"big.Int.Exp with symbolic operand"})
		}
		return fr.bigSet(args[0], new(big.Int).Exp(x, y, m))
	}
	shift := func(left bool) externalFn {
		return func(fr *frame, args []value) value {
			n, ok := args[2].(uint)
			if !ok {
				panic(engineAbort{"big.Int shift by symbolic amount"})
			}
			switch x := fr.bigGet(args[1]).(type) {
			case *big.Int:
				if left {
					return fr.bigSet(args[0], new(big.Int).Lsh(x, n))
				}
				return fr.bigSet(args[0], new(big.Int).Rsh(x, n))
			case sym:
				if n >= uint(len(pow2)) {
					panic(engineAbort{"big shift too large"})
				}
				if left {
					return fr.bigSet(args[0], bigSym("(* "+x.t+" "+pow2[n].String()+")"))
				}
				return fr.bigSet(args[0], bigSym("(div "+x.t+" "+pow2[n].String()+")"))
			}
			return nil
		}
	}
	e["(*math/big.Int).Lsh"] = shift(true)
	e["(*math/big.Int).Rsh"] = shift(false)
	concOnly := func(name string, f bigBin) externalFn {
		return func(fr *frame, args []value) value {
			x, xok := fr.bigGet(args[1]).(*big.Int)
			y, yok := fr.bigGet(args[2]).(*big.Int)
			if !xok || !yok {
				panic(engineAbort{"big.Int." + name + " with symbolic operand"})
			}
			return fr.bigSet(args[0], f(new(big.Int), x, y))
		}
	}
	e["(*math/big.Int).And"] = concOnly("And", (*big.Int).And)
	e["(*math/big.Int).Or"] = concOnly("Or", (*big.Int).Or)
	e["(*math/big.Int).Xor"] = concOnly("Xor", (*big.Int).Xor)
	e["(*math/big.Int).Bit"] = func(fr *frame, args []value) value {
		x, ok := fr.bigGet(args[0]).(*big.Int)
		if !ok {
			panic(engineAbort{"big.Int.Bit symbolic"})
		}
		return x.Bit(args[1].(int))
	}
	e["(*math/big.Int).Sqrt"] = func(fr *frame, args []value) value {
		x, ok := fr.bigGet(args[1]).(*big.Int)
		if !ok {
			panic(engineAbort{"big.Int.Sqrt symbolic"})
		}
		return fr.bigSet(args[0], new(big.Int).Sqrt(x))
	}
	e["(*math/big.Int).Format"] = func(fr *frame, args []value) value {
		panic(engineAbort{"big.Int.Format"})
	}
	e["(*math/big.Int).MarshalText"] = func(fr *frame, args []value) value {
		x, ok := fr.bigGet(args[0]).(*big.Int)
		if !ok {
			panic(engineAbort{"big.Int.MarshalText symbolic"})
		}
		return tuple{bytesToValue([]byte(x.String())), iface{}}
	}
}

func bytesToValue(b []byte) value {
	out := make([]value, len(b))
	for k := range b {
		out[k] = b[k]
	}
	return out
}

// Strings that stand for symbolic content carry a marker; comparing two
// different marked strings is refused (engine abort) instead of being decided
// syntactically.
const strMark = "\x00⟦"

func markString(s string) string { return strMark + s + "⟧" }
func isMarked(s string) bool     { return strings.Contains(s, strMark) }

// bigBytesV is the element of a big-bytes object (see (*big.Int).Bytes).
type bigBytesV struct{ t string }
