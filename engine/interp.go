// Copyright 2013 The Go Authors. All rights reserved.
// Use of this source code is governed by a BSD-style
// license that can be found in the LICENSE file.

// This file started as a copy of golang.org/x/tools/go/ssa/interp (v0.29.0)
// and was changed into the core of a bounded symbolic executor:
// symbolic scalars, solver-decided branches, explicit target runtime errors,
// lazy package initialisation and a function replacement table.

package main

import (
	"fmt"
	"go/token"
	"go/types"
	"os"
	"runtime"
	"slices"
	"strings"

	"golang.org/x/tools/go/ssa"
)

type continuation int

const (
	kNext continuation = iota
	kReturn
	kJump
)

type methodSet map[string]*ssa.Function

// engineAbort: the engine met something it cannot model. Never recoverable by
// the target program; the path (and hence the harness) is inconclusive.
type engineAbort struct{ msg string }

func (e engineAbort) String() string { return "engine abort: " + e.msg }

// pathEnd: the current path ends here (infeasible assumption, budget, ...).
type pathEnd struct {
	reason string
	incon  bool // inconclusive (budget / unwind) rather than a normal end
}

// poison marks a value produced by a failed package initialiser.
type poison struct{ reason string }

// State of one interpreter (one worker, one path at a time).
type interpreter struct {
	prog               *ssa.Program
	globals            map[*ssa.Global]*value
	pkgInit            map[*ssa.Package]int
	runtimeErrorString types.Type
	errorsErrorString  types.Type
	sizes              types.Sizes
	tracing            bool
	st                 *pathState
	inInit             int
	callDepth          int
	extState           map[string]interface{} // per-path scratch for intrinsics (codec tables, ...)
	skipExtFor         *ssa.Function          // run the real body of this function once (set by an external that declines)
	sched              *scheduler             // non-nil in concurrency mode (verif.Schedule)
}

type deferred struct {
	fn    value
	args  []value
	instr *ssa.Defer
	tail  *deferred
}

type frame struct {
	i                *interpreter
	caller           *frame
	fn               *ssa.Function
	block, prevBlock *ssa.BasicBlock
	env              map[ssa.Value]value // dynamic values of SSA variables
	locals           []value
	defers           *deferred
	result           value
	panicking        bool
	panic            interface{}
	phitemps         []value // temporaries for parallel phi assignment
	curInstr         ssa.Instruction
}

func mustDeref(t types.Type) types.Type {
	if p, ok := t.Underlying().(*types.Pointer); ok {
		return p.Elem()
	}
	panic(engineAbort{fmt.Sprintf("mustDeref: %v is not a pointer", t)})
}

func (i *interpreter) runtimeError(msg string) value {
	return iface{i.runtimeErrorString, "runtime error: " + msg}
}

func (fr *frame) get(key ssa.Value) value {
	switch key := key.(type) {
	case nil:
		return nil
	case *ssa.Function, *ssa.Builtin:
		return key
	case *ssa.Const:
		return constValue(key)
	case *ssa.Global:
		return fr.i.globalAddr(key)
	}
	if r, ok := fr.env[key]; ok {
		if p, isP := r.(poison); isP && fr.i.inInit == 0 {
			panic(engineAbort{"use of value from failed package initialiser: " + p.reason})
		}
		return r
	}
	panic(engineAbort{fmt.Sprintf("get: no value for %T: %v", key, key.Name())})
}

// globalAddr returns the address of a package-level variable, initialising
// its package lazily.
func (i *interpreter) globalAddr(g *ssa.Global) *value {
	if r, ok := i.globals[g]; ok {
		return r
	}
	pkg := g.Pkg
	if i.pkgInit[pkg] == 0 {
		// allocate all globals of the package, then run its initialiser
		for _, m := range pkg.Members {
			if v, ok := m.(*ssa.Global); ok {
				cell := zero(mustDeref(v.Type()))
				i.globals[v] = &cell
			}
		}
		i.pkgInit[pkg] = 1
		var s0 int64
		if i.st != nil {
			s0 = i.st.steps
		}
		i.runPackageInit(pkg)
		if i.st != nil && initDebug {
			fmt.Fprintf(os.Stderr, "init %s: %d steps\n", pkg.Pkg.Path(), i.st.steps-s0)
		}
		i.pkgInit[pkg] = 2
	}
	if r, ok := i.globals[g]; ok {
		return r
	}
	cell := zero(mustDeref(g.Type()))
	i.globals[g] = &cell
	return &cell
}

var initDebug = os.Getenv("GOSYM_INITDEBUG") != ""

// packages whose explicit init#N functions are executed as well
var skipExplicitInits = map[string]bool{}

// runPackageInit interprets the synthetic init of pkg: only the package-level
// variable initialisers. Calls to other packages' init functions are skipped
// (they are lazy themselves), explicit init#N functions are skipped unless
// allow-listed. A failing initialiser poisons only the values it produces.
func (i *interpreter) runPackageInit(pkg *ssa.Package) {
	fn := pkg.Func("init")
	if fn == nil || fn.Blocks == nil {
		return
	}
	i.inInit++
	defer func() { i.inInit-- }()
	savedSt := i.st
	_ = savedSt
	fr := &frame{i: i, fn: fn}
	fr.env = make(map[ssa.Value]value)
	fr.block = fn.Blocks[0]
	fr.locals = make([]value, len(fn.Locals))
	for k, l := range fn.Locals {
		fr.locals[k] = zero(mustDeref(l.Type()))
		fr.env[l] = &fr.locals[k]
	}
	for fr.block != nil {
		nonPhis := executePhis(fr)
		jumped := false
		for _, instr := range nonPhis {
			// the init guard: "if init$guard goto done else run" — always run
			if ifi, ok := instr.(*ssa.If); ok {
				if u, ok := ifi.Cond.(*ssa.UnOp); ok {
					if g, ok := u.X.(*ssa.Global); ok && g.Name() == "init$guard" {
						fr.prevBlock, fr.block = fr.block, fr.block.Succs[1]
						jumped = true
						break
					}
				}
			}
			if c, ok := instr.(*ssa.Call); ok {
				if callee := c.Call.StaticCallee(); callee != nil {
					if callee.Name() == "init" && callee.Pkg != pkg {
						continue // other package's init: lazy
					}
					if strings.HasPrefix(callee.Name(), "init#") && callee.Pkg == pkg {
						if skipExplicitInits[pkg.Pkg.Path()] {
							continue
						}
					}
				}
			}
			cont := i.initInstr(fr, instr)
			if cont == kReturn {
				return
			}
			if cont == kJump {
				jumped = true
				break
			}
		}
		if !jumped {
			return
		}
	}
}

func (i *interpreter) initInstr(fr *frame, instr ssa.Instruction) (cont continuation) {
	defer func() {
		if r := recover(); r != nil {
			if _, ok := r.(pathEnd); ok {
				panic(r)
			}
			reason := fmt.Sprintf("%s: %v", fr.fn.Pkg.Pkg.Path(), panicString(r))
			if len(reason) > 300 {
				reason = reason[:300]
			}
			if v, ok := instr.(ssa.Value); ok {
				fr.env[v] = poison{reason}
			}
			if s, ok := instr.(*ssa.Store); ok {
				if addr, ok := fr.env[s.Addr]; ok {
					if p, ok := addr.(*value); ok && p != nil {
						*p = poison{reason}
					}
				} else if g, ok := s.Addr.(*ssa.Global); ok {
					*i.globals[g] = poison{reason}
				}
			}
			if os.Getenv("GOSYM_INITDEBUG") != "" {
				fmt.Fprintf(os.Stderr, "init poison: %s (%v)\n", reason, instr)
			}
			cont = kNext
		}
	}()
	// storing a poisoned value poisons the destination
	if s, ok := instr.(*ssa.Store); ok {
		if v, ok := fr.env[s.Val]; ok {
			if p, isP := v.(poison); isP {
				addr := fr.get(s.Addr).(*value)
				*addr = p
				return kNext
			}
		}
	}
	// any operand poisoned => result poisoned
	for _, op := range instr.Operands(nil) {
		if *op == nil {
			continue
		}
		if v, ok := fr.env[*op]; ok {
			if p, isP := v.(poison); isP {
				if val, ok := instr.(ssa.Value); ok {
					fr.env[val] = p
				}
				if _, isIf := instr.(*ssa.If); isIf {
					panic(engineAbort{"branch on poisoned value in init"})
				}
				return kNext
			}
		}
	}
	return visitInstr(fr, instr)
}

func panicString(r interface{}) string {
	switch r := r.(type) {
	case targetPanic:
		return "target panic: " + toString(r.v)
	case engineAbort:
		return r.msg
	case error:
		return r.Error()
	case string:
		return r
	}
	return fmt.Sprintf("%v", r)
}

// runDefer runs a deferred call d.
// It always returns normally, but may set or clear fr.panic.
func (fr *frame) runDefer(d *deferred) {
	var ok bool
	defer func() {
		if !ok {
			// Deferred call created a new state of panic.
			fr.panicking = true
			fr.panic = recover()
		}
	}()
	call(fr.i, fr, d.instr.Pos(), d.fn, d.args)
	ok = true
}

func (fr *frame) runDefers() {
	for d := fr.defers; d != nil; d = d.tail {
		fr.runDefer(d)
	}
	fr.defers = nil
	if fr.panicking {
		panic(fr.panic) // new panic, or still panicking
	}
}

func lookupMethod(i *interpreter, typ types.Type, meth *types.Func) *ssa.Function {
	return i.prog.LookupMethod(typ, meth.Pkg(), meth.Name())
}

func (fr *frame) nilDeref() {
	panic(targetPanic{v: fr.i.runtimeError("invalid memory address or nil pointer dereference")})
}

func (fr *frame) ptr(v value) *value {
	p, ok := v.(*value)
	if !ok {
		panic(engineAbort{fmt.Sprintf("expected pointer, got %T in %s", v, fr.fn)})
	}
	if p == nil {
		fr.nilDeref()
	}
	return p
}

// index converts an index value to int, checking bounds against n.
func (fr *frame) index(idx value, n int) int {
	if s, ok := idx.(sym); ok {
		idx = fr.i.concretize(fr, s, "index")
	}
	k := asInt64(idx)
	if k < 0 || k >= int64(n) {
		panic(targetPanic{v: fr.i.runtimeError(fmt.Sprintf("index out of range [%d] with length %d", k, n))})
	}
	return int(k)
}

// visitInstr interprets a single ssa.Instruction within the activation
// record frame.  It returns a continuation value indicating where to
// read the next instruction from.
func visitInstr(fr *frame, instr ssa.Instruction) continuation {
	fr.curInstr = instr
	if st := fr.i.st; st != nil {
		st.steps++
		if st.steps > st.maxSteps {
			panic(pathEnd{"step budget exhausted at " + stackOf(fr), true})
		}
	}
	switch instr := instr.(type) {
	case *ssa.DebugRef:
		// no-op

	case *ssa.UnOp:
		fr.env[instr] = unop(fr, instr, fr.get(instr.X))

	case *ssa.BinOp:
		fr.env[instr] = binop(fr, instr.Op, instr.X.Type(), fr.get(instr.X), fr.get(instr.Y))

	case *ssa.Call:
		fn, args := prepareCall(fr, &instr.Call)
		fr.env[instr] = call(fr.i, fr, instr.Pos(), fn, args)

	case *ssa.ChangeInterface:
		fr.env[instr] = fr.get(instr.X)

	case *ssa.ChangeType:
		fr.env[instr] = fr.get(instr.X) // (can't fail)

	case *ssa.Convert:
		fr.env[instr] = conv(fr, instr.Type(), instr.X.Type(), fr.get(instr.X))

	case *ssa.SliceToArrayPointer:
		fr.env[instr] = sliceToArrayPointer(fr, instr.Type(), instr.X.Type(), fr.get(instr.X))

	case *ssa.MakeInterface:
		fr.env[instr] = iface{t: instr.X.Type(), v: fr.get(instr.X)}

	case *ssa.Extract:
		fr.env[instr] = fr.get(instr.Tuple).(tuple)[instr.Index]

	case *ssa.Slice:
		fr.env[instr] = slice(fr, fr.get(instr.X), fr.get(instr.Low), fr.get(instr.High), fr.get(instr.Max))

	case *ssa.Return:
		switch len(instr.Results) {
		case 0:
		case 1:
			fr.result = fr.get(instr.Results[0])
		default:
			var res []value
			for _, r := range instr.Results {
				res = append(res, fr.get(r))
			}
			fr.result = tuple(res)
		}
		fr.block = nil
		return kReturn

	case *ssa.RunDefers:
		fr.runDefers()

	case *ssa.Panic:
		panic(targetPanic{v: fr.get(instr.X)})

	case *ssa.Send:
		fr.chanSend(fr.get(instr.Chan), fr.get(instr.X))

	case *ssa.Store:
		store(mustDeref(instr.Addr.Type()), fr.ptr(fr.get(instr.Addr)), fr.get(instr.Val))

	case *ssa.If:
		succ := 1
		c := fr.get(instr.Cond)
		switch c := c.(type) {
		case bool:
			if c {
				succ = 0
			}
		case sym:
			if fr.i.decideBool(fr, c.t) {
				succ = 0
			}
		default:
			panic(engineAbort{fmt.Sprintf("if on %T", c)})
		}
		fr.prevBlock, fr.block = fr.block, fr.block.Succs[succ]
		return kJump

	case *ssa.Jump:
		fr.prevBlock, fr.block = fr.block, fr.block.Succs[0]
		return kJump

	case *ssa.Defer:
		fn, args := prepareCall(fr, &instr.Call)
		defers := &fr.defers
		if into := fr.get(instr.DeferStack); into != nil {
			defers = into.(**deferred)
		}
		*defers = &deferred{
			fn:    fn,
			args:  args,
			instr: instr,
			tail:  *defers,
		}

	case *ssa.Go:
		fn, args := prepareCall(fr, &instr.Call)
		fr.i.needSched("go statement").spawn(fr, fn, args, instr.Pos())

	case *ssa.MakeChan:
		fr.env[instr] = &schan{cap: int(asInt64(fr.get(instr.Size))), elem: instr.Type().Underlying().(*types.Chan).Elem()}

	case *ssa.Alloc:
		var addr *value
		if instr.Heap {
			// new
			addr = new(value)
			fr.env[instr] = addr
		} else {
			// local
			addr = fr.env[instr].(*value)
		}
		*addr = zero(mustDeref(instr.Type()))

	case *ssa.MakeSlice:
		capv := fr.get(instr.Cap)
		lenv := fr.get(instr.Len)
		if s, ok := capv.(sym); ok {
			capv = fr.i.concretize(fr, s, "make cap")
		}
		if s, ok := lenv.(sym); ok {
			lenv = fr.i.concretize(fr, s, "make len")
		}
		n := asInt64(capv)
		if n < 0 || n > 1<<24 {
			panic(targetPanic{v: fr.i.runtimeError("makeslice: len out of range")})
		}
		slice := make([]value, n)
		tElt := instr.Type().Underlying().(*types.Slice).Elem()
		for i := range slice {
			slice[i] = zero(tElt)
		}
		fr.env[instr] = slice[:asInt64(lenv)]

	case *ssa.MakeMap:
		fr.env[instr] = makeMap(instr.Type().Underlying().(*types.Map).Key())

	case *ssa.Range:
		fr.env[instr] = rangeIter(fr, fr.get(instr.X), instr.X.Type())

	case *ssa.Next:
		fr.env[instr] = fr.get(instr.Iter).(iter).next()

	case *ssa.FieldAddr:
		p := fr.ptr(fr.get(instr.X))
		s, ok := (*p).(structure)
		if !ok {
			panic(engineAbort{fmt.Sprintf("FieldAddr on %T (%s) in %s", *p, instr.X.Type(), fr.fn)})
		}
		fr.env[instr] = &s[instr.Field]

	case *ssa.Field:
		s, ok := fr.get(instr.X).(structure)
		if !ok {
			panic(engineAbort{fmt.Sprintf("Field on %T (%s) in %s", fr.get(instr.X), instr.X.Type(), fr.fn)})
		}
		fr.env[instr] = s[instr.Field]

	case *ssa.IndexAddr:
		x := fr.get(instr.X)
		idx := fr.get(instr.Index)
		switch x := x.(type) {
		case []value:
			fr.env[instr] = &x[fr.index(idx, len(x))]
		case *value: // *array
			if x == nil {
				fr.nilDeref()
			}
			a := (*x).(array)
			fr.env[instr] = &a[fr.index(idx, len(a))]
		default:
			panic(engineAbort{fmt.Sprintf("unexpected x type in IndexAddr: %T", x)})
		}

	case *ssa.Index:
		x := fr.get(instr.X)
		idx := fr.get(instr.Index)

		switch x := x.(type) {
		case array:
			fr.env[instr] = x[fr.index(idx, len(x))]
		case string:
			fr.env[instr] = x[fr.index(idx, len(x))]
		default:
			panic(engineAbort{fmt.Sprintf("unexpected x type in Index: %T", x)})
		}

	case *ssa.Lookup:
		fr.env[instr] = lookup(fr, instr, fr.get(instr.X), fr.get(instr.Index))

	case *ssa.MapUpdate:
		m := fr.get(instr.Map)
		key := fr.get(instr.Key)
		v := fr.get(instr.Value)
		switch m := m.(type) {
		case *smap:
			if m == nil {
				panic(targetPanic{v: fr.i.runtimeError("assignment to entry in nil map")})
			}
			m.insert(fr, key, v)
		default:
			panic(engineAbort{fmt.Sprintf("illegal map type: %T", m)})
		}

	case *ssa.TypeAssert:
		fr.env[instr] = typeAssert(fr, instr, fr.get(instr.X).(iface))

	case *ssa.MakeClosure:
		var bindings []value
		for _, binding := range instr.Bindings {
			bindings = append(bindings, fr.get(binding))
		}
		fr.env[instr] = &closure{instr.Fn.(*ssa.Function), bindings}

	case *ssa.Phi:
		panic(engineAbort{"unreachable phi"})

	case *ssa.Select:
		fr.env[instr] = fr.selectStmt(instr)

	default:
		panic(engineAbort{fmt.Sprintf("unexpected instruction: %T", instr)})
	}

	return kNext
}

// prepareCall determines the function value and argument values for a
// function call in a Call, Go or Defer instruction, performing
// interface method lookup if needed.
func prepareCall(fr *frame, call *ssa.CallCommon) (fn value, args []value) {
	v := fr.get(call.Value)
	if call.Method == nil {
		// Function call.
		fn = v
	} else {
		// Interface method invocation.
		recv := v.(iface)
		if recv.t == nil {
			panic(targetPanic{v: fr.i.runtimeError("invalid memory address or nil pointer dereference (method " + call.Method.Name() + " invoked on nil interface)")})
		}
		if f := lookupMethod(fr.i, recv.t, call.Method); f == nil {
			// Unreachable in well-typed programs.
			panic(engineAbort{fmt.Sprintf("method set for dynamic type %v does not contain %s", recv.t, call.Method)})
		} else {
			fn = f
		}
		args = append(args, recv.v)
	}
	for _, arg := range call.Args {
		args = append(args, fr.get(arg))
	}
	return
}

// call interprets a call to a function (function, builtin or closure)
// fn with arguments args, returning its result.
// callpos is the position of the callsite.
func call(i *interpreter, caller *frame, callpos token.Pos, fn value, args []value) value {
	switch fn := fn.(type) {
	case *ssa.Function:
		if fn == nil {
			panic(targetPanic{v: i.runtimeError("invalid memory address or nil pointer dereference (call of nil func)")})
		}
		return callSSA(i, caller, callpos, fn, args, nil)
	case *closure:
		return callSSA(i, caller, callpos, fn.Fn, args, fn.Env)
	case *ssa.Builtin:
		return callBuiltin(caller, callpos, fn, args)
	case *nativeFunc:
		return fn.f(caller, args)
	}
	panic(engineAbort{fmt.Sprintf("cannot call %T", fn)})
}

// packages whose functions are no-ops returning zero values (telemetry, metrics)
var noopPackages = map[string]bool{
	"github.com/cosmos/cosmos-sdk/telemetry": true,
	"github.com/hashicorp/go-metrics":        true,
}

// nativeFunc is a function value implemented by the engine.
type nativeFunc struct {
	name string
	f    func(fr *frame, args []value) value
}

func loc(fset *token.FileSet, pos token.Pos) string {
	if pos == token.NoPos {
		return ""
	}
	return " at " + fset.Position(pos).String()
}

const maxCallDepth = 2000

// callSSA interprets a call to function fn with arguments args,
// and lexical environment env, returning its result.
// callpos is the position of the callsite.
func callSSA(i *interpreter, caller *frame, callpos token.Pos, fn *ssa.Function, args []value, env []value) value {
	if i.tracing {
		fset := fn.Prog.Fset
		fmt.Fprintf(os.Stderr, "%*sEntering %s%s.\n", i.callDepth, "", fn, loc(fset, fn.Pos()))
	}
	fr := &frame{
		i:      i,
		caller: caller, // for panic/recover
		fn:     fn,
	}
	if i.skipExtFor == fn {
		i.skipExtFor = nil
	} else if fn.Parent() == nil {
		name := fn.String()
		rf := lookupReplacement(i.prog, name)
		if rf == nil && i.extState != nil {
			rf = i.lookupSwitchable(name)
		}
		if rf != nil {
			if i.st != nil && i.inInit == 0 {
				i.st.noteStub(name + " => model." + rf.Name())
			}
			return callSSA(i, caller, callpos, rf, args, nil)
		}
		if ext := externals[name]; ext != nil {
			if i.st != nil && i.inInit == 0 {
				i.st.noteStub(name)
			}
			return ext(fr, args)
		}
		if o := fn.Origin(); o != nil {
			if ext := externals[o.String()]; ext != nil {
				if i.st != nil && i.inInit == 0 {
					i.st.noteStub(o.String())
				}
				return ext(fr, args)
			}
		}
		if fn.Pkg != nil && noopPackages[fn.Pkg.Pkg.Path()] {
			if i.st != nil && i.inInit == 0 {
				i.st.noteStub(fn.Pkg.Pkg.Path() + ".* (no-op)")
			}
			return zero(fn.Signature.Results())
		}
		if strings.HasPrefix(name, "(*math/big.Int).") || strings.HasPrefix(name, "(math/big.nat).") {
			panic(engineAbort{"unmodelled math/big method " + name})
		}
		if fn.Blocks == nil {
			if ext := externalsByPrefix(name); ext != nil {
				return ext(fr, args)
			}
			panic(engineAbort{"no code for function: " + name})
		}
	}

	// generic function body?
	if fn.TypeParams().Len() > 0 && len(fn.TypeArgs()) == 0 {
		panic(engineAbort{"uninstantiated generic function " + fn.String()})
	}
	if i.st != nil && i.inInit == 0 {
		i.st.noteFunc(fn)
	}
	i.callDepth++
	if i.callDepth > maxCallDepth {
		panic(pathEnd{"call depth exceeded in " + fn.String(), true})
	}
	defer func() { i.callDepth-- }()

	fr.env = make(map[ssa.Value]value)
	fr.block = fn.Blocks[0]
	fr.locals = make([]value, len(fn.Locals))
	for i, l := range fn.Locals {
		fr.locals[i] = zero(mustDeref(l.Type()))
		fr.env[l] = &fr.locals[i]
	}
	for i, p := range fn.Params {
		fr.env[p] = args[i]
	}
	for i, fv := range fn.FreeVars {
		fr.env[fv] = env[i]
	}
	for fr.block != nil {
		runFrame(fr)
	}
	// Destroy the locals to avoid accidental use after return.
	for i := range fn.Locals {
		fr.locals[i] = bad{}
	}
	return fr.result
}

// runFrame executes SSA instructions starting at fr.block and
// continuing until a return, a panic, or a recovered panic.
func runFrame(fr *frame) {
	defer func() {
		if fr.block == nil {
			return // normal return
		}
		fr.panicking = true
		fr.panic = recover()
		switch p := fr.panic.(type) {
		case targetPanic:
			// target-level panic: run the target's deferred calls
			if p.where == nil {
				p.where = attachPos(fr, engineAbort{}).where
				fr.panic = p
			}
		case engineAbort:
			panic(attachPos(fr, p))
		case pathEnd:
			panic(p)
		case gkill:
			panic(p)
		case abortAt:
			panic(p)
		default:
			// Go runtime error inside the interpreter = engine bug / unsupported
			buf := make([]byte, 4096)
			n := runtime.Stack(buf, false)
			panic(attachPos(fr, engineAbort{fmt.Sprintf("internal: %v\n%s", p, buf[:n])}))
		}
		if fr.i.tracing {
			fmt.Fprintf(os.Stderr, "Panicking: %T %v.\n", fr.panic, fr.panic)
		}
		fr.runDefers()
		fr.block = fr.fn.Recover
	}()

	for {
		if fr.i.tracing {
			fmt.Fprintf(os.Stderr, ".%s:\n", fr.block)
		}

		nonPhis := executePhis(fr)
		for _, instr := range nonPhis {
			if fr.i.tracing {
				if v, ok := instr.(ssa.Value); ok {
					fmt.Fprintln(os.Stderr, "\t", v.Name(), "=", instr)
				} else {
					fmt.Fprintln(os.Stderr, "\t", instr)
				}
			}
			if visitInstr(fr, instr) == kReturn {
				return
			}
			// Inv: kNext (continue) or kJump (last instr)
		}
	}
}

// abortAt is an engineAbort with position information attached.
type abortAt struct {
	msg   string
	where []string
}

func attachPos(fr *frame, e engineAbort) abortAt {
	a := abortAt{msg: e.msg}
	for f := fr; f != nil && len(a.where) < 12; f = f.caller {
		pos := ""
		if f.curInstr != nil {
			pos = loc(f.fn.Prog.Fset, f.curInstr.Pos())
		}
		a.where = append(a.where, f.fn.String()+pos)
	}
	return a
}

// executePhis executes the phi-nodes at the start of the current
// block and returns the non-phi instructions.
func executePhis(fr *frame) []ssa.Instruction {
	firstNonPhi := -1
	for i, instr := range fr.block.Instrs {
		if _, ok := instr.(*ssa.Phi); !ok {
			firstNonPhi = i
			break
		}
	}
	// Inv: 0 <= firstNonPhi; every block contains a non-phi.

	nonPhis := fr.block.Instrs[firstNonPhi:]
	if firstNonPhi > 0 {
		phis := fr.block.Instrs[:firstNonPhi]
		predIndex := slices.Index(fr.block.Preds, fr.prevBlock)
		fr.phitemps = fr.phitemps[:0]
		for _, phi := range phis {
			phi := phi.(*ssa.Phi)
			fr.phitemps = append(fr.phitemps, fr.get(phi.Edges[predIndex]))
		}
		for i, phi := range phis {
			fr.env[phi.(*ssa.Phi)] = fr.phitemps[i]
		}
	}
	return nonPhis
}

// doRecover implements the recover() built-in.
func doRecover(caller *frame) value {
	// recover() must be exactly one level beneath the deferred
	// function (two levels beneath the panicking function) to
	// have any effect.  Thus we ignore both "defer recover()" and
	// "defer f() -> g() -> recover()".
	if caller != nil && !caller.panicking &&
		caller.caller != nil && caller.caller.panicking {
		p := caller.caller.panic
		switch p := p.(type) {
		case targetPanic:
			caller.caller.panicking = false
			caller.caller.panic = nil
			if caller.i.st != nil {
				caller.i.st.recovered++
			}
			// The target program explicitly called panic().
			return p.v
		default:
			// engine-level condition: not recoverable by the target
			return iface{}
		}
	}
	return iface{}
}
