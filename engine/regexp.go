package main

// regexp: compile/match natively on the engine side (patterns and subjects are concrete).

import (
	"regexp"
	"sync"
)

var reCache sync.Map

func nativeRe(expr string) *regexp.Regexp {
	if r, ok := reCache.Load(expr); ok {
		return r.(*regexp.Regexp)
	}
	r := regexp.MustCompile(expr)
	reCache.Store(expr, r)
	return r
}

func (fr *frame) reExpr(p value) string {
	s := (*fr.ptr(p)).(structure)
	return s[0].(string)
}

func init() {
	e := externals
	mk := func(fr *frame, expr string) value {
		t := fr.i.errorsPkgType("regexp", "Regexp")
		var cell value = zero(t)
		cell.(structure)[0] = expr
		return &cell
	}
	e["regexp.MustCompile"] = func(fr *frame, args []value) value {
		expr := argString(args[0])
		if _, err := regexp.Compile(expr); err != nil {
			panic(targetPanic{v: iface{fr.i.stringType(), "regexp: Compile: " + err.Error()}})
		}
		return mk(fr, expr)
	}
	e["regexp.Compile"] = func(fr *frame, args []value) value {
		expr := argString(args[0])
		if _, err := regexp.Compile(expr); err != nil {
			return tuple{(*value)(nil), fr.i.newErrorString(err.Error())}
		}
		return tuple{mk(fr, expr), iface{}}
	}
	e["(*regexp.Regexp).MatchString"] = func(fr *frame, args []value) value {
		return nativeRe(fr.reExpr(args[0])).MatchString(argString(args[1]))
	}
	e["(*regexp.Regexp).Match"] = func(fr *frame, args []value) value {
		raw, ok := bytesAllConcrete(args[1].([]value))
		if !ok {
			panic(engineAbort{"regexp match on symbolic bytes"})
		}
		return nativeRe(fr.reExpr(args[0])).Match(raw)
	}
	e["(*regexp.Regexp).String"] = func(fr *frame, args []value) value { return fr.reExpr(args[0]) }
	e["(*regexp.Regexp).FindStringSubmatch"] = func(fr *frame, args []value) value {
		m := nativeRe(fr.reExpr(args[0])).FindStringSubmatch(argString(args[1]))
		if m == nil {
			return []value(nil)
		}
		out := make([]value, len(m))
		for k := range m {
			out[k] = m[k]
		}
		return out
	}
	e["(*regexp.Regexp).FindString"] = func(fr *frame, args []value) value {
		return nativeRe(fr.reExpr(args[0])).FindString(argString(args[1]))
	}
	e["(*regexp.Regexp).ReplaceAllString"] = func(fr *frame, args []value) value {
		return nativeRe(fr.reExpr(args[0])).ReplaceAllString(argString(args[1]), argString(args[2]))
	}
}
