package main

// Finite maps with symbolic keys: an insertion-ordered entry list whose keys
// are pairwise distinct under the path condition. Looking up or inserting a
// key that contains symbolic scalars forks on equality with existing entries.

import (
	"fmt"
	"go/types"
	"strconv"
	"strings"
	"unsafe"
)

type ment struct {
	key  value
	val  value
	ck   string // concrete key string ("" if key has symbolic parts)
	dead bool
}

type smap struct {
	keyType types.Type
	ents    []*ment
	cidx    map[string]*ment
	nlive   int
	nsym    int // number of live entries with symbolic keys
}

func makeMap(kt types.Type) value {
	return &smap{keyType: kt, cidx: map[string]*ment{}}
}

// keyString renders a fully concrete key injectively; ok=false when the key
// contains a symbolic scalar.
func keyString(sb *strings.Builder, v value) bool {
	switch v := v.(type) {
	case sym:
		return false
	case bool:
		if v {
			sb.WriteString("T")
		} else {
			sb.WriteString("F")
		}
	case int:
		sb.WriteString(strconv.FormatInt(int64(v), 10))
	case int8:
		sb.WriteString(strconv.FormatInt(int64(v), 10))
	case int16:
		sb.WriteString(strconv.FormatInt(int64(v), 10))
	case int32:
		sb.WriteString(strconv.FormatInt(int64(v), 10))
	case int64:
		sb.WriteString(strconv.FormatInt(v, 10))
	case uint:
		sb.WriteString(strconv.FormatUint(uint64(v), 10))
	case uint8:
		sb.WriteString(strconv.FormatUint(uint64(v), 10))
	case uint16:
		sb.WriteString(strconv.FormatUint(uint64(v), 10))
	case uint32:
		sb.WriteString(strconv.FormatUint(uint64(v), 10))
	case uint64:
		sb.WriteString(strconv.FormatUint(v, 10))
	case uintptr:
		sb.WriteString(strconv.FormatUint(uint64(v), 10))
	case float32:
		sb.WriteString(strconv.FormatFloat(float64(v), 'g', -1, 32))
	case float64:
		sb.WriteString(strconv.FormatFloat(v, 'g', -1, 64))
	case string:
		sb.WriteString(strconv.Quote(v))
	case *value:
		sb.WriteString("p" + strconv.FormatUint(uint64(uintptr(unsafe.Pointer(v))), 16))
	case structure:
		sb.WriteString("{")
		for _, e := range v {
			if !keyString(sb, e) {
				return false
			}
			sb.WriteString(",")
		}
		sb.WriteString("}")
	case array:
		sb.WriteString("[")
		for _, e := range v {
			if !keyString(sb, e) {
				return false
			}
			sb.WriteString(",")
		}
		sb.WriteString("]")
	case iface:
		if v.t == nil {
			sb.WriteString("nil")
		} else {
			sb.WriteString("(" + v.t.String() + ")")
			return keyString(sb, v.v)
		}
	case *schan:
		sb.WriteString(fmt.Sprintf("c%p", v))
	case rtype:
		sb.WriteString("rt:" + v.t.String())
	default:
		panic(engineAbort{fmt.Sprintf("unhashable map key %T", v)})
	}
	return true
}

func concreteKey(v value) string {
	var sb strings.Builder
	if keyString(&sb, v) {
		return "k" + sb.String()
	}
	return ""
}

func (m *smap) len() int {
	if m == nil {
		return 0
	}
	return m.nlive
}

func (m *smap) live() []*ment {
	if m == nil {
		return nil
	}
	out := make([]*ment, 0, m.nlive)
	for _, e := range m.ents {
		if !e.dead {
			out = append(out, e)
		}
	}
	return out
}

// find returns the entry whose key equals k on the current path (forking on
// symbolic equalities), or nil.
func (m *smap) find(fr *frame, k value) *ment {
	if m == nil {
		return nil
	}
	ck := concreteKey(k)
	if ck != "" {
		if e := m.cidx[ck]; e != nil && !e.dead {
			return e
		}
		if m.nsym == 0 {
			return nil
		}
		for _, e := range m.ents {
			if e.dead || e.ck != "" {
				continue
			}
			if fr.i.truth(fr, equalsV(fr, m.keyType, k, e.key)) {
				return e
			}
		}
		return nil
	}
	for _, e := range m.ents {
		if e.dead {
			continue
		}
		if fr.i.truth(fr, equalsV(fr, m.keyType, k, e.key)) {
			return e
		}
	}
	return nil
}

func (m *smap) lookup(fr *frame, k value) (value, bool) {
	if e := m.find(fr, k); e != nil {
		return e.val, true
	}
	return nil, false
}

func (m *smap) insert(fr *frame, k, v value) {
	if e := m.find(fr, k); e != nil {
		e.val = v
		return
	}
	e := &ment{key: copyVal(k), val: v, ck: concreteKey(k)}
	m.ents = append(m.ents, e)
	m.nlive++
	if e.ck != "" {
		m.cidx[e.ck] = e
	} else {
		m.nsym++
	}
}

func (m *smap) delete(fr *frame, k value) {
	if m == nil {
		return
	}
	if e := m.find(fr, k); e != nil {
		e.dead = true
		m.nlive--
		if e.ck != "" {
			delete(m.cidx, e.ck)
		} else {
			m.nsym--
		}
		if len(m.ents) > 32 && m.nlive < len(m.ents)/2 {
			m.ents = m.live()
		}
	}
}

// copyVal copies aggregate values (arrays, structs) so that a stored key is
// not aliased with a mutable cell.
func copyVal(v value) value {
	switch v := v.(type) {
	case structure:
		a := make(structure, len(v))
		for i := range v {
			a[i] = copyVal(v[i])
		}
		return a
	case array:
		a := make(array, len(v))
		for i := range v {
			a[i] = copyVal(v[i])
		}
		return a
	}
	return v
}

type smapIter struct {
	ents []*ment
	i    int
}

func (it *smapIter) next() tuple {
	for it.i < len(it.ents) {
		e := it.ents[it.i]
		it.i++
		if e.dead {
			continue
		}
		return tuple{true, copyVal(e.key), e.val}
	}
	return tuple{false, nil, nil}
}

// iter returns an iterator. Iteration order is insertion order, unless the
// harness switched on non-deterministic map order, in which case every
// permutation is explored (a bounded non-deterministic choice per position).
func (m *smap) iter(fr *frame) iter {
	ents := m.live()
	st := fr.i.st
	if st != nil && st.mapPerm && len(ents) > 1 && fr.i.inInit == 0 {
		if len(ents) > st.mapPermMax {
			panic(pathEnd{fmt.Sprintf("map range over %d entries exceeds permutation bound %d", len(ents), st.mapPermMax), true})
		}
		rest := append([]*ment(nil), ents...)
		perm := make([]*ment, 0, len(ents))
		for len(rest) > 1 {
			c := fr.i.choose(fr, len(rest), "maporder")
			perm = append(perm, rest[c])
			rest = append(rest[:c:c], rest[c+1:]...)
		}
		perm = append(perm, rest[0])
		ents = perm
	}
	return &smapIter{ents: ents}
}

func (m *smap) shallowClone() *smap {
	if m == nil {
		return nil
	}
	c := &smap{keyType: m.keyType, cidx: map[string]*ment{}}
	for _, e := range m.ents {
		if e.dead {
			continue
		}
		n := &ment{key: e.key, val: e.val, ck: e.ck}
		c.ents = append(c.ents, n)
		c.nlive++
		if n.ck != "" {
			c.cidx[n.ck] = n
		} else {
			c.nsym++
		}
	}
	return c
}

func init() {
	// maps.clone is linked to the runtime (shallow copy of a map)
	externals["maps.clone"] = func(fr *frame, args []value) value {
		x := args[0].(iface)
		m, ok := x.v.(*smap)
		if !ok {
			panic(engineAbort{fmt.Sprintf("maps.clone of %T", x.v)})
		}
		return iface{t: x.t, v: m.shallowClone()}
	}
}
