package main

// Function replacement table: calls to the listed concrete-struct methods are
// redirected to model functions written in Go (interpreted like any other code).

import (
	"crypto/sha256"
	"fmt"
	"go/types"
	"strings"
	"sync"

	"golang.org/x/tools/go/ssa"
)

const modelPkg = "github.com/EscanBE/evermint/v12/zzverif/model"

const akType = "(github.com/cosmos/cosmos-sdk/x/auth/keeper.AccountKeeper)."

var replacements = map[string]string{
	akType + "HasAccount":                     "AKHasAccount",
	akType + "GetAccount":                     "AKGetAccount",
	akType + "SetAccount":                     "AKSetAccount",
	akType + "RemoveAccount":                  "AKRemoveAccount",
	akType + "NextAccountNumber":              "AKNextAccountNumber",
	akType + "NewAccount":                     "AKNewAccount",
	akType + "NewAccountWithAddress":          "AKNewAccountWithAddress",
	akType + "GetModuleAddress":               "AKGetModuleAddress",
	akType + "GetModuleAddressAndPermissions": "AKGetModuleAddressAndPermissions",
	akType + "GetModuleAccountAndPermissions": "AKGetModuleAccountAndPermissions",
	akType + "GetModuleAccount":               "AKGetModuleAccount",
	akType + "SetModuleAccount":               "AKSetModuleAccount",
	akType + "AddressCodec":                   "AKAddressCodec",

	// the concrete protobuf codec (client.Context.Codec is a codec.Codec, which only *ProtoCodec / *AminoCodec implement)
	"(*github.com/cosmos/cosmos-sdk/codec.ProtoCodec).Marshal":       "PCMarshal",
	"(*github.com/cosmos/cosmos-sdk/codec.ProtoCodec).MustMarshal":   "PCMustMarshal",
	"(*github.com/cosmos/cosmos-sdk/codec.ProtoCodec).Unmarshal":     "PCUnmarshal",
	"(*github.com/cosmos/cosmos-sdk/codec.ProtoCodec).MustUnmarshal": "PCMustUnmarshal",

	// SDK staking / distribution (concrete keeper structs inside x/cpc) and what surrounds them in the staking precompile
	"(github.com/cosmos/cosmos-sdk/x/staking/keeper.Keeper).BondDenom":                        "SKBondDenom",
	"(github.com/cosmos/cosmos-sdk/x/staking/keeper.Keeper).ValidatorAddressCodec":            "SKValidatorAddressCodec",
	"(github.com/cosmos/cosmos-sdk/x/staking/keeper.msgServer).Delegate":                      "SKDelegate",
	"(github.com/cosmos/cosmos-sdk/x/staking/keeper.msgServer).Undelegate":                    "SKUndelegate",
	"(github.com/cosmos/cosmos-sdk/x/staking/keeper.msgServer).BeginRedelegate":               "SKBeginRedelegate",
	"(github.com/cosmos/cosmos-sdk/x/distribution/keeper.msgServer).WithdrawDelegatorReward":  "DKWithdrawDelegatorReward",
	"(github.com/cosmos/cosmos-sdk/x/staking/keeper.Keeper).GetAllDelegatorDelegations":       "SKGetAllDelegatorDelegations",
	"(github.com/cosmos/cosmos-sdk/x/staking/keeper.Keeper).Validator":                        "SKValidator",
	"(github.com/cosmos/cosmos-sdk/x/staking/keeper.Keeper).IterateLastValidators":            "SKIterateLastValidators",
	"(github.com/cosmos/cosmos-sdk/x/distribution/keeper.Querier).DelegationTotalRewards":     "DKDelegationTotalRewards",
	"(github.com/cosmos/cosmos-sdk/x/distribution/keeper.Querier).DelegationRewards":          "DKDelegationRewards",
	"(github.com/cosmos/cosmos-sdk/x/staking/keeper.Keeper).GetDelegation":                    "SKGetDelegation",
	"(github.com/cosmos/cosmos-sdk/x/staking/keeper.Keeper).GetDelegatorBonded":               "SKGetDelegatorBonded",
	"github.com/cosmos/cosmos-sdk/types.ParseCoinsNormalized":                                 "ParseCoinsNormalized",
	"encoding/json.Marshal":                                                                    "JsonMarshal",
	"github.com/EscanBE/evermint/v12/x/cpc/eip712.VerifySignature":                            "Eip712VerifySignature",

	// protobuf Any packing / type registry
	"(github.com/cosmos/cosmos-sdk/x/authz.MsgExec).GetMessages":    "ExecGetMessages",
	"(github.com/cosmos/cosmos-sdk/x/authz.Grant).GetAuthorization": "GrantGetAuthorization",
	"github.com/cosmos/cosmos-sdk/codec/types.MsgTypeURL":           "MsgTypeURL",
	"(*github.com/cosmos/cosmos-sdk/codec/types.Any).GetCachedValue": "AnyGetCachedValue",

	// Ethereum transaction model (RLP decoding, hash, signature recovery)
	"(github.com/EscanBE/evermint/v12/x/evm/types.MsgEthereumTx).AsTransaction": "MsgAsTransaction",
	"github.com/ethereum/go-ethereum/core/types.Sender":                          "TxSender",
	"(*github.com/ethereum/go-ethereum/core/types.Transaction).Hash":             "TxHash",
	"(*github.com/ethereum/go-ethereum/core/types.Transaction).UnmarshalBinary":  "TxUnmarshalBinary",
	"github.com/ethereum/go-ethereum/core/types.recoverPlain":                    "RecoverPlain",
	"github.com/EscanBE/evermint/v12/x/vauth/utils.VerifySignature":              "VauthVerifySignature",
	"(github.com/ethereum/go-ethereum/core/types.londonSigner).Hash":             "SignerHash",
	"(github.com/ethereum/go-ethereum/core/types.eip2930Signer).Hash":            "SignerHash",
	"(github.com/ethereum/go-ethereum/core/types.EIP155Signer).Hash":             "SignerHash",
	"(github.com/ethereum/go-ethereum/core/types.HomesteadSigner).Hash":          "SignerHash",
	"(github.com/ethereum/go-ethereum/core/types.FrontierSigner).Hash":           "SignerHash",

	// ABI codec and typed-metadata JSON of the custom precompiles (reflection)
	"(github.com/EscanBE/evermint/v12/x/cpc/abi.CustomPrecompiledContractInfo).UnpackMethodInput": "AbiUnpackMethodInput",
	"(github.com/EscanBE/evermint/v12/x/cpc/abi.CustomPrecompiledContractInfo).PackMethodOutput":  "AbiPackMethodOutput",
	"github.com/EscanBE/evermint/v12/x/cpc/utils.AbiEncodeString":                                 "AbiEncodeString",
	"github.com/EscanBE/evermint/v12/x/cpc/utils.AbiEncodeUint8":                                  "AbiEncodeUint8",
	"github.com/EscanBE/evermint/v12/x/cpc/utils.AbiEncodeUint256":                                "AbiEncodeUint256",
	"github.com/EscanBE/evermint/v12/x/cpc/utils.AbiEncodeBool":                                   "AbiEncodeBool",
	"github.com/EscanBE/evermint/v12/x/cpc/utils.AbiEncodeArrayOfAddresses":                       "AbiEncodeArrayOfAddresses",
	"github.com/EscanBE/evermint/v12/x/cpc/utils.MustMarshalJson":                                 "MustMarshalJson",
	"encoding/json.Unmarshal":                                                                      "JsonUnmarshal",
	"github.com/cometbft/cometbft/libs/json.Unmarshal":                                              "JsonUnmarshal",

	// RLP / bloom of receipts (reflection-driven RLP and the pooled assembly Keccak are outside the engine)
	"(*github.com/ethereum/go-ethereum/core/types.Receipt).MarshalBinary":   "ReceiptMarshalBinary",
	"(*github.com/ethereum/go-ethereum/core/types.Receipt).UnmarshalBinary": "ReceiptUnmarshalBinary",
	"github.com/ethereum/go-ethereum/core/types.CreateBloom":                "CreateBloom",
	"github.com/ethereum/go-ethereum/core/types.LogsBloom":                  "LogsBloom",
}

// switchable replacements are only in force while the harness has switched them on with verif.Switch(key, true)
const evmT = "(*github.com/ethereum/go-ethereum/core/vm.EVM)."

var switchable = map[string][2]string{
	evmT + "Call":         {"evmstub", "EVMCall"},
	evmT + "Create":       {"evmstub", "EVMCreate"},
	evmT + "StaticCall":   {"evmstub", "EVMStaticCall"},
	evmT + "DelegateCall": {"evmstub", "EVMDelegateCall"},
	evmT + "CallCode":     {"evmstub", "EVMCallCode"},
	evmT + "Create2":      {"evmstub", "EVMCreate2"},
}

func (i *interpreter) lookupSwitchable(name string) *ssa.Function {
	sw, ok := switchable[name]
	if !ok {
		return nil
	}
	if on, _ := i.extState["switch:"+sw[0]].(bool); !on {
		return nil
	}
	key := "sw:" + name
	if f, ok := replCache.Load(key); ok {
		return f.(*ssa.Function)
	}
	pkg := i.prog.ImportedPackage(modelPkg)
	if pkg == nil {
		panic(engineAbort{"replacement for " + name + " needs the model package, which is not loaded"})
	}
	fn := pkg.Func(sw[1])
	if fn == nil {
		panic(engineAbort{"model function " + sw[1] + " not found"})
	}
	replCache.Store(key, fn)
	return fn
}

var replCache sync.Map

func lookupReplacement(prog *ssa.Program, name string) *ssa.Function {
	target, ok := replacements[name]
	if !ok {
		return nil
	}
	if f, ok := replCache.Load(name); ok {
		return f.(*ssa.Function)
	}
	pkg := prog.ImportedPackage(modelPkg)
	if pkg == nil {
		panic(engineAbort{"replacement for " + name + " needs the model package, which is not loaded"})
	}
	fn := pkg.Func(target)
	if fn == nil {
		panic(engineAbort{"model function " + target + " not found"})
	}
	replCache.Store(name, fn)
	return fn
}

// ---- address rendering (inverse pairs into the marked-string domain) ----------

func bytesAllConcrete(bs []value) ([]byte, bool) {
	raw := make([]byte, len(bs))
	for k, b := range bs {
		bb, ok := b.(uint8)
		if !ok {
			return nil, false
		}
		raw[k] = bb
	}
	return raw, true
}

func atomOfBytes(kind string, bs []value) string {
	var parts []string
	for _, b := range bs {
		parts = append(parts, termOf(b))
	}
	return markString(kind + ":" + strings.Join(parts, ","))
}

const hexdigits = "0123456789abcdef"

func init() {
	e := externals
	e["crypto/sha256.Sum256"] = func(fr *frame, args []value) value {
		raw, ok := bytesAllConcrete(args[0].([]value))
		if !ok {
			panic(engineAbort{"sha256 of symbolic bytes"})
		}
		h := sha256.Sum256(raw)
		out := make(array, 32)
		for k := range h {
			out[k] = h[k]
		}
		return out
	}
	// sdk address String(): concrete bytes -> a stable injective rendering (prefix + hex; the
	// real bech32 alphabet/checksum is not needed because every parser below is its inverse);
	// symbolic bytes -> marked atom carrying the byte terms.
	addrString := func(prefix string) externalFn {
		return func(fr *frame, args []value) value {
			bs, _ := args[0].([]value)
			if len(bs) == 0 {
				return ""
			}
			if raw, ok := bytesAllConcrete(bs); ok {
				var sb strings.Builder
				sb.WriteString(prefix + "1")
				for _, b := range raw {
					sb.WriteByte(hexdigits[b>>4])
					sb.WriteByte(hexdigits[b&15])
				}
				return sb.String()
			}
			return atomOfBytes("addr/"+prefix, bs)
		}
	}
	addrParse := func(prefix string) externalFn {
		return func(fr *frame, args []value) value {
			s := argString(args[0])
			bs, ok := parseAddrString(prefix, s)
			if !ok {
				return tuple{[]value(nil), fr.i.newErrorString("decoding bech32 failed")}
			}
			return tuple{bs, iface{}}
		}
	}
	const sdkT = "github.com/cosmos/cosmos-sdk/types."
	e["("+sdkT+"AccAddress).String"] = addrString("acc")
	e["("+sdkT+"ValAddress).String"] = addrString("valoper")
	e["("+sdkT+"ConsAddress).String"] = addrString("valcons")
	e[sdkT+"AccAddressFromBech32"] = addrParse("acc")
	e[sdkT+"ValAddressFromBech32"] = addrParse("valoper")
	e[sdkT+"ConsAddressFromBech32"] = addrParse("valcons")
	e[sdkT+"VerifyAddressFormat"] = func(fr *frame, args []value) value {
		bs := args[0].([]value)
		if len(bs) == 0 {
			return fr.i.newErrorString("addresses cannot be empty")
		}
		if len(bs) > 255 {
			return fr.i.newErrorString("address max length is 255")
		}
		return iface{}
	}
	// go-ethereum common.Address / Hash hex rendering
	hexString := func(kind string) externalFn {
		return func(fr *frame, args []value) value {
			var bs []value
			switch a := args[0].(type) {
			case array:
				bs = []value(a)
			case []value:
				bs = a
			}
			if raw, ok := bytesAllConcrete(bs); ok {
				var sb strings.Builder
				sb.WriteString("0x")
				for _, b := range raw {
					sb.WriteByte(hexdigits[b>>4])
					sb.WriteByte(hexdigits[b&15])
				}
				return sb.String()
			}
			return atomOfBytes(kind, bs)
		}
	}
	const ethC = "github.com/ethereum/go-ethereum/common."
	e["("+ethC+"Address).Hex"] = hexString("ethaddr")
	e["("+ethC+"Address).String"] = hexString("ethaddr")
	e["("+ethC+"Hash).Hex"] = hexString("ethhash")
	e["("+ethC+"Hash).String"] = hexString("ethhash")
	e["("+ethC+"Hash).TerminalString"] = hexString("ethhash")
	e[ethC+"HexToAddress"] = func(fr *frame, args []value) value {
		s := argString(args[0])
		if bs, ok := parseAtom("ethaddr", s); ok && len(bs) == 20 {
			return array(bs)
		}
		if isMarked(s) {
			panic(engineAbort{"HexToAddress of a foreign symbolic string"})
		}
		raw := hexDecodeLoose(s)
		out := make(array, 20)
		for k := range out {
			out[k] = uint8(0)
		}
		if len(raw) > 20 {
			raw = raw[len(raw)-20:]
		}
		for k := range raw {
			out[20-len(raw)+k] = raw[k]
		}
		return out
	}
	e[ethC+"HexToHash"] = func(fr *frame, args []value) value {
		s := argString(args[0])
		if bs, ok := parseAtom("ethhash", s); ok && len(bs) == 32 {
			return array(bs)
		}
		if isMarked(s) {
			panic(engineAbort{"HexToHash of a foreign symbolic string"})
		}
		raw := hexDecodeLoose(s)
		out := make(array, 32)
		for k := range out {
			out[k] = uint8(0)
		}
		if len(raw) > 32 {
			raw = raw[len(raw)-32:]
		}
		for k := range raw {
			out[32-len(raw)+k] = raw[k]
		}
		return out
	}
	e[ethC+"IsHexAddress"] = func(fr *frame, args []value) value {
		s := argString(args[0])
		if _, ok := parseAtom("ethaddr", s); ok {
			return true
		}
		if isMarked(s) {
			return false
		}
		if strings.HasPrefix(s, "0x") || strings.HasPrefix(s, "0X") {
			s = s[2:]
		}
		if len(s) != 40 {
			return false
		}
		for _, c := range s {
			if !(c >= '0' && c <= '9' || c >= 'a' && c <= 'f' || c >= 'A' && c <= 'F') {
				return false
			}
		}
		return true
	}
}

func hexDecodeLoose(s string) []byte {
	if strings.HasPrefix(s, "0x") || strings.HasPrefix(s, "0X") {
		s = s[2:]
	}
	if len(s)%2 == 1 {
		s = "0" + s
	}
	out := make([]byte, 0, len(s)/2)
	for k := 0; k+1 < len(s); k += 2 {
		hi, ok1 := unhex(s[k])
		lo, ok2 := unhex(s[k+1])
		if !ok1 || !ok2 {
			return out
		}
		out = append(out, hi<<4|lo)
	}
	return out
}

func unhex(c byte) (byte, bool) {
	switch {
	case c >= '0' && c <= '9':
		return c - '0', true
	case c >= 'a' && c <= 'f':
		return c - 'a' + 10, true
	case c >= 'A' && c <= 'F':
		return c - 'A' + 10, true
	}
	return 0, false
}

// parseAtom parses a marked atom "kind:t1,t2,..." back into byte values.
func parseAtom(kind, s string) ([]value, bool) {
	pre := strMark + kind + ":"
	if !strings.HasPrefix(s, pre) || !strings.HasSuffix(s, "⟧") {
		return nil, false
	}
	body := s[len(pre) : len(s)-len("⟧")]
	if strings.Contains(body, strMark) {
		return nil, false
	}
	var out []value
	for _, t := range splitTerms(body) {
		out = append(out, termToByte(t))
	}
	return out, true
}

// splitTerms splits on commas at parenthesis depth 0.
func splitTerms(s string) []string {
	var out []string
	d, start := 0, 0
	for k := 0; k < len(s); k++ {
		switch s[k] {
		case '(':
			d++
		case ')':
			d--
		case ',':
			if d == 0 {
				out = append(out, s[start:k])
				start = k + 1
			}
		}
	}
	return append(out, s[start:])
}

func termToByte(t string) value {
	allDigits := len(t) > 0
	n := 0
	for _, c := range t {
		if c < '0' || c > '9' {
			allDigits = false
			break
		}
		n = n*10 + int(c-'0')
	}
	if allDigits && n < 256 {
		return uint8(n)
	}
	return sym{t, types.Uint8}
}

func parseAddrString(prefix, s string) ([]value, bool) {
	if bs, ok := parseAtom("addr/"+prefix, s); ok {
		return bs, true
	}
	if isMarked(s) {
		return nil, false
	}
	pre := prefix + "1"
	if !strings.HasPrefix(s, pre) {
		return nil, false
	}
	h := s[len(pre):]
	if len(h) == 0 || len(h)%2 != 0 {
		return nil, false
	}
	var out []value
	for k := 0; k+1 < len(h); k += 2 {
		hi, ok1 := unhex(h[k])
		lo, ok2 := unhex(h[k+1])
		if !ok1 || !ok2 {
			return nil, false
		}
		out = append(out, uint8(hi<<4|lo))
	}
	return out, true
}

// ---- equality of strings that stand for symbolic content ---------------------------

type strTok struct {
	lit  string
	atom string // "kind:terms"
}

func tokenizeMarked(s string) []strTok {
	var out []strTok
	for len(s) > 0 {
		k := strings.Index(s, strMark)
		if k < 0 {
			out = append(out, strTok{lit: s})
			break
		}
		if k > 0 {
			out = append(out, strTok{lit: s[:k]})
		}
		rest := s[k+len(strMark):]
		e := strings.Index(rest, "⟧")
		if e < 0 {
			out = append(out, strTok{lit: s[k:]})
			break
		}
		out = append(out, strTok{atom: rest[:e]})
		s = rest[e+len("⟧"):]
	}
	return out
}

// markedStringsEqual decides equality of two different strings at least one of
// which contains symbolic atoms. Sound cases only; anything else aborts.
func markedStringsEqual(x, y string) value {
	if x == "" || y == "" {
		return false // a rendering of symbolic content is never empty
	}
	tx, ty := tokenizeMarked(x), tokenizeMarked(y)
	if len(tx) == len(ty) {
		var acc []string
		ok := true
		for k := range tx {
			a, b := tx[k], ty[k]
			if (a.atom == "") != (b.atom == "") {
				ok = false
				break
			}
			if a.atom == "" {
				if a.lit != b.lit {
					ok = false
					break
				}
				continue
			}
			ka, ta, _ := strings.Cut(a.atom, ":")
			kb, tb, _ := strings.Cut(b.atom, ":")
			if ka != kb {
				ok = false
				break
			}
			sa, sb := splitTerms(ta), splitTerms(tb)
			if len(sa) != len(sb) {
				return false // renderings of different lengths (fixed-width kinds)
			}
			for j := range sa {
				if sa[j] != sb[j] {
					acc = append(acc, "(= "+sa[j]+" "+sb[j]+")")
				}
			}
		}
		if ok {
			return boolV(mkAnd(acc...))
		}
	}
	// one side fully concrete and fixed-width atom on the other side: compare via parse
	for _, pair := range [][2]string{{x, y}, {y, x}} {
		sx, sy := pair[0], pair[1]
		if !isMarked(sy) && len(tokenizeMarked(sx)) == 1 && tokenizeMarked(sx)[0].atom != "" {
			kind, terms, _ := strings.Cut(tokenizeMarked(sx)[0].atom, ":")
			ts := splitTerms(terms)
			var raw []value
			var okp bool
			switch {
			case strings.HasPrefix(kind, "addr/"):
				raw, okp = parseAddrString(kind[5:], sy)
			case kind == "ethaddr" || kind == "ethhash":
				if strings.HasPrefix(sy, "0x") && len(sy) == 2+2*len(ts) {
					b := hexDecodeLoose(sy)
					if len(b) == len(ts) {
						okp = true
						for _, bb := range b {
							raw = append(raw, bb)
						}
					}
				}
			case kind == "big":
				return boolV("(= " + terms + " " + fmt.Sprint(bigFromDecimal(sy)) + ")")
			}
			if !okp || len(raw) != len(ts) {
				return false
			}
			var acc []string
			for j := range ts {
				acc = append(acc, "(= "+ts[j]+" "+termOf(raw[j])+")")
			}
			return boolV(mkAnd(acc...))
		}
	}
	panic(engineAbort{"comparison of strings standing for symbolic content"})
}

func bigFromDecimal(s string) string {
	neg := strings.HasPrefix(s, "-")
	d := strings.TrimPrefix(s, "-")
	if d == "" {
		panic(engineAbort{"comparison of symbolic number rendering with non-number"})
	}
	for _, c := range d {
		if c < '0' || c > '9' {
			panic(engineAbort{"comparison of symbolic number rendering with non-number"})
		}
	}
	if neg {
		return "(- " + d + ")"
	}
	return d
}
