#!/usr/bin/env python3
import json, sys, os
from collections import Counter
d = sys.argv[1] if len(sys.argv) > 1 else 'dev'
r = json.load(open('/verif/out/%s/result.json' % d))
for h in r['harnesses']:
    print(h['harness'].rsplit('.',1)[1], h['status'], 'paths', h['paths'], 'ended', h['paths_ended'], 'wall %.0fs' % h['wall_s'])
    print(' asserts', h['assert_labels']); print(' reach', h.get('reach'))
    print(' viol', Counter(v['label'] for v in (h['violations'] or [])))
    c = Counter(m[m.find(' @ '):][:1000] if ' @ ' in m else m[:500] for m in h['inconclusive'] or [])
    for m, n in c.most_common(4): print(' INCON', n, m)
    seen = set()
    for v in (h['violations'] or []):
        if v['label'] in seen: continue
        seen.add(v['label']); print(' CEX', v['label'], json.dumps(v['inputs'])[:1000], v.get('note') or '')
