#!/usr/bin/env python3
"""dev helper: seedcheck.py <worktree> <PROP> [tier] - run all harnesses of a property's check against another checkout
(engine only, no native replay); prints per harness status and violated labels. Never touches /repo."""
import json, os, subprocess, sys
sys.path.insert(0, '/verif')
import checks as CH
wt, prop = sys.argv[1], sys.argv[2]
tier = sys.argv[3] if len(sys.argv) > 3 else 'quick'
spec = CH.CHECKS[prop]
tag = os.path.basename(wt)
env = dict(os.environ, VERIF_REPO=wt, VERIF_GEN_DIR='/verif/out/gen-' + tag, GOSYM_SOLVER='z3-new')
ov = '/verif/out/overlay-%s.json' % tag
subprocess.run(['python3', '/verif/bin/mkoverlay.py', ov], env=env, stdout=subprocess.DEVNULL, check=True)
hs = [h for h in spec['harnesses'] if tier == 'thorough' or not h.get('thorough_only')]
names = []
for h in hs:
    n = h['fn']
    for k, v in (h.get('over') or {}).items(): n += '@%s=%s' % (k, v)
    names.append(n)
kf = [k['id'] for k in json.load(open('/verif/known_findings.json'))['findings'] if k['status'] == 'open']
out = '/verif/out/seedcheck-%s-%s' % (tag, prop)
cmd = ['/verif/bin/gosym', '-repo', wt, '-overlay', ov, '-pkgs', ','.join(spec['pkgs']), '-harness', ','.join(names), '-out', out, '-workers', '12', '-open-kf', ','.join(kf)]
r = subprocess.run(cmd, env=env, stdout=subprocess.PIPE, stderr=subprocess.STDOUT, text=True)
try:
    res = json.load(open(out + '/result.json'))
except Exception:
    print(r.stdout[-1500:]); sys.exit(3)
caught = False
for h in res['harnesses']:
    labels = {}
    for v in (h['violations'] or []): labels[v['label']] = labels.get(v['label'], 0) + 1
    if labels: caught = True
    print('%-40s %-12s paths %-7d %s %s' % (h['harness'].rsplit('.', 1)[1], h['status'], h['paths'], labels or '', [m[:120] for m in (h['inconclusive'] or [])[:1]]))
print('RESULT %s %s: %s' % (tag, prop, 'CAUGHT' if caught else 'not caught'))
