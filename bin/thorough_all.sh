#!/bin/bash
# dev helper: run the thorough tier of the given checks one after the other, each in its own process group with a cap
cap=${CAP:-2400}
mkdir -p /verif/out/thorough
for p in "$@"; do
  start=$(date +%s)
  setsid bash -c "cd /verif && bin/check $p --tier thorough > out/thorough/$p.log 2>&1" &
  pid=$!
  while kill -0 $pid 2>/dev/null; do
    sleep 5
    if [ $(( $(date +%s) - start )) -gt $cap ]; then kill -TERM -- -$pid 2>/dev/null; sleep 2; kill -KILL -- -$pid 2>/dev/null; echo "$p TIMEOUT after ${cap}s"; fi
  done
  wait $pid; rc=$?
  echo "$p exit=$rc $(( $(date +%s) - start ))s $(tail -1 out/thorough/$p.log | cut -c1-120)"
done
