#!/bin/bash
# dev helper: re-test stored seeds against their catching harness in a scratch worktree (never touches /repo)
W=/tmp/wt/st1
P=github.com/EscanBE/evermint/v12
while read -r seed pkg h extra; do
  [ -z "$seed" ] && continue
  d=/verif/seeded/$seed
  patch=$d/patch.diff; [ -f $d/patch_rebased.diff ] && patch=$d/patch_rebased.diff
  (cd $W && git checkout -q -- . && git apply $patch) || { echo "$seed PATCH-DOES-NOT-APPLY"; continue; }
  r=$(/verif/bin/seedrun.sh $W $pkg $P/$h -workers 8 -max-paths 200000 $extra 2>&1 | tail -1 | cut -c1-160)
  echo "$seed $r"
done <<'LIST'
C10-m1 ./zzverif/hcpc zzverif/hcpc.H_C10_1_OneCall
C10-m2 ./zzverif/hcpc zzverif/hcpc.H_C10_1_OneCall
C11-m1 ./zzverif/hcpc zzverif/hcpc.H_C11_2_SignedMessage
C11-m2 ./zzverif/hcpc zzverif/hcpc.H_C11_1_CallerOnly
C01-m1 ./zzverif/hcpc zzverif/hcpc.H_C01_3_StakingTransferChoice@max-decisions=2000
C02-m1 ./x/evm/vm x/evm/vm.H_C02_3_AccessListDifferential
C02-m2 ./zzverif/hsdb zzverif/hsdb.H_C02_2_StateDBRefinement
C13-m2 ./zzverif/htx zzverif/htx.H_C13_1_Block2@max-decisions=3000
C14-m1 ./zzverif/hidx zzverif/hidx.H_C14_1_IndexKernel
C05-m1 ./zzverif/htx zzverif/htx.H_C05_1_ChargeLaw@max-decisions=1500 -open-kf C05-F12
C08-m1 ./zzverif/htx zzverif/htx.H_C08_2a_EthCall@max-decisions=2000
C03-m2 ./zzverif/hsdb zzverif/hsdb.H_C03_1_Erase
C15-m1 ./zzverif/hsdb zzverif/hsdb.H_C15_1_DestroyGuard
C17-m2 ./zzverif/hcpc zzverif/hcpc.H_C17_1_RegistryStep
LIST
(cd $W && git checkout -q -- .)
