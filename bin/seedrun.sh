#!/bin/bash
# dev helper: seedrun.sh <repo-root> <pkgpattern> <harness> [gosym flags] - run a harness against another checkout (seed testing)
R=$1; pkg=$2; h=$3; shift 3
tag=$(basename $R)
VERIF_REPO=$R VERIF_GEN_DIR=/verif/out/gen-$tag python3 /verif/bin/mkoverlay.py /verif/out/overlay-$tag.json >/dev/null
GOSYM_SOLVER=${GOSYM_SOLVER:-z3-new} /verif/bin/gosym -repo $R -overlay /verif/out/overlay-$tag.json -pkgs "$pkg" -harness "$h" -out /verif/out/seed-$tag "$@" 2>&1 | grep "^HARNESS" 
python3 - <<PY
import json
r=json.load(open('/verif/out/seed-$tag/result.json'))
for h in r['harnesses']:
    labels={}
    for v in (h['violations'] or []): labels[v['label']]=labels.get(v['label'],0)+1
    print(h['harness'].rsplit('.',1)[1], h['status'], 'paths',h['paths'], 'violations', labels, [m[:150] for m in (h['inconclusive'] or [])[:2]])
PY
