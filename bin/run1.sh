#!/bin/bash
# dev helper: run1.sh <pkgpattern> <harness> [extra gosym flags]
python3 /verif/bin/mkoverlay.py >/dev/null
pkg=$1; h=$2; shift 2
GOSYM_SOLVER=${GOSYM_SOLVER:-z3-new} /verif/bin/gosym -overlay /verif/out/overlay.json -pkgs "$pkg" -harness "$h" -out /verif/out/${RUN1_OUT:-dev} "$@" 2>&1 | tail -20
python3 - <<'PY'
import json
r=json.load(open('/verif/out/'+__import__('os').environ.get('RUN1_OUT','dev')+'/result.json'))
for h in r['harnesses']:
    print(h['harness'], h['status'], 'paths',h['paths'],'ended',h['paths_ended'],'asserts',h['assert_labels'],'queries',h['queries'])
    for m in (h['inconclusive'] or [])[:6]: print('  INCON:', m[:1800])
    for v in (h['violations'] or [])[:6]: print('  VIOL:', v['label'], v['note'], json.dumps(v['inputs'])[:600])
    for v in (h['known'] or [])[:3]: print('  KNOWN:', v['label'], v['kf'], json.dumps(v['inputs'])[:300])
print('solver_s', r['solver_s'], 'wall', r['wall_s'])
PY
