#!/usr/bin/env python3
"""Regenerate /verif/MANIFEST.json from checks.py (keeps MANIFEST and the check configuration in step)."""
import json, sys
sys.path.insert(0, '/verif')
import checks as CH
props = [json.loads(l) for l in open('/verif/properties.jsonl')]
baseline = json.load(open('/root/.vp/BASELINE.json'))['cmd']
man = {
 "version": 1,
 "setup_cmd": "cd /verif/engine && GOFLAGS=-mod=mod GOPROXY=off GOSUMDB=off GOTOOLCHAIN=local go build -o /verif/bin/gosym . && /verif/bin/check --selfcheck",
 "hooks": {"guard": "verif",
           "enable": "harness files carry //go:build verif and are injected with go's -overlay (never written into /repo); the engine loads and go test replays build with -tags verif",
           "baseline_off_cmd": baseline, "source_commits": [], "add_only": True},
 "engines": [{"name": "gosym", "path": "/verif/engine", "serves_properties": sorted(CH.CHECKS),
              "kind_free_text": "bounded symbolic executor for Go: go/ssa of /repo's working tree interpreted with symbolic scalars (mathematical Int encoding with explicit mod 2^k wrap), forking by re-execution under a decision prefix, z3 5.1.0 decides each path-condition/assertion query, z3 4.8.12 and cvc5 cross-check dumped queries, counterexamples are replayed natively (go test -overlay) before being reported"}],
 "checks": [], "not_applicable": [],
 "notes": "fix: commits made in /repo are recorded in /verif/known_findings.json (status fixed; they suppress nothing). Open known findings are reported as KNOWN-FINDING lines only inside their recorded region.",
}
for p in props:
    pid = p['id']
    if pid in CH.CHECKS:
        c = CH.CHECKS[pid]
        man['checks'].append({
            "property_id": pid,
            "quick_cmd": "/verif/bin/check %s --tier quick" % pid,
            "thorough_cmd": "/verif/bin/check %s --tier thorough" % pid,
            "evidence_file": "/verif/evidence/%s.json" % pid,
            "replay_cmd_template": "/verif/bin/check --replay %s {path}" % pid,
            "engine": "gosym",
            "level_claimed": {"category": "model_checking", "text": c['level_text'], "design_ref": c.get('design_ref', 'DESIGN.md section 5 ' + pid)},
            "level_note": c['level_note'],
            "technique": "solver-based bounded symbolic execution of the real Go code (go/ssa -> SMT-LIB2; z3 decides every path and assertion query within the stated bounds; sat models replayed natively)",
        })
    else:
        man['not_applicable'].append({"property_id": pid, "reason": CH.NOT_APPLICABLE.get(pid, "no harness registered yet: the code this property depends on has not been encoded for the symbolic executor at this commit")})
json.dump(man, open('/verif/MANIFEST.json', 'w'), indent=1)
print('checks:', [c['property_id'] for c in man['checks']], 'n/a:', [n['property_id'] for n in man['not_applicable']])
