#!/usr/bin/env python3
"""Generate the overlay JSON that injects /verif/harness into /repo (never written to /repo)."""
import json, os, sys
H = '/verif/harness'
def build(repo='/repo'):
    rep = {}
    for sub, dst in (('verif', 'zzverif/verif'), ('model', 'zzverif/model')):
        d = os.path.join(H, sub)
        for root, _, files in os.walk(d):
            for f in files:
                if f.endswith('.go'):
                    rel = os.path.relpath(os.path.join(root, f), d)
                    rep[os.path.join(repo, dst, rel)] = os.path.join(root, f)
    d = os.path.join(H, 'inpkg')
    for root, _, files in os.walk(d):
        for f in files:
            if f.endswith('.go'):
                rel = os.path.relpath(os.path.join(root, f), d)
                rep[os.path.join(repo, rel)] = os.path.join(root, f)
    d = os.path.join(H, 'pkg')
    for root, _, files in os.walk(d):
        for f in files:
            if f.endswith('.go'):
                rel = os.path.relpath(os.path.join(root, f), d)
                rep[os.path.join(repo, 'zzverif', rel)] = os.path.join(root, f)
    return {'Replace': rep}
if __name__ == '__main__':
    out = sys.argv[1] if len(sys.argv) > 1 else '/verif/out/overlay.json'
    os.makedirs(os.path.dirname(out), exist_ok=True)
    json.dump(build(), open(out, 'w'), indent=1)
    print(out)
